package chain

import (
	"context"
	"errors"
	"sync"

	"github.com/protolambda/zrnt/eth2/beacon/bellatrix"
	"github.com/protolambda/zrnt/eth2/beacon/capella"
	"github.com/protolambda/zrnt/eth2/beacon/common"
	"github.com/protolambda/zrnt/eth2/beacon/deneb"
)

// Engine method names as recorded in EngineCall.Method.
const (
	EngIsValidBlockHash       = "IsValidBlockHash"
	EngIsValidVersionedHashes = "IsValidVersionedHashes"
	EngNotifyNewPayload       = "NotifyNewPayload"
)

// EngineVerdict is a scripted answer.
type EngineVerdict int

const (
	EngineValid   EngineVerdict = iota // (true, nil)
	EngineInvalid                      // (false, nil)
	EngineError                        // (false, ErrScriptedEngine)
)

// ErrScriptedEngine is returned by the engine for EngineError verdicts.
var ErrScriptedEngine = errors.New("scripted engine error")

// EngineCall records one call into the execution engine.
type EngineCall struct {
	Seq    int    // 0-based position in the engine's call log
	Fork   Fork   // Bellatrix, Capella or Deneb (which interface method was used)
	Method string // EngIsValidBlockHash | EngIsValidVersionedHashes | EngNotifyNewPayload
	// Payload is the pointer that zrnt passed (one of *bellatrix.ExecutionPayload,
	// *capella.ExecutionPayload, *deneb.ExecutionPayload); it aliases the block body.
	Payload interface{}
	// Summary of the payload, copied at call time.
	BlockHash  common.Root
	ParentHash common.Root
	PrevRandao common.Root
	Timestamp  common.Timestamp
	// Deneb only.
	ParentBeaconBlockRoot common.Root
	VersionedHashes       []common.Hash32 // only for EngIsValidVersionedHashes
	Verdict               EngineVerdict   // what the engine answered
	CtxErr                error           // ctx.Err() observed at call time
}

// ScriptedEngine implements the bellatrix, capella and deneb ExecutionEngine
// interfaces of zrnt. It records every call and answers according to a script;
// the default answer is "valid".
type ScriptedEngine struct {
	mu    sync.Mutex
	calls []EngineCall
	// Script, if set, decides the verdict of each call (call.Verdict is ignored on input).
	Script func(call *EngineCall) EngineVerdict
	// Plan maps a call sequence number to a verdict (consulted when Script is nil).
	Plan map[int]EngineVerdict
}

// NewScriptedEngine returns an engine that says "valid" to everything.
func NewScriptedEngine() *ScriptedEngine { return &ScriptedEngine{} }

// Calls returns a copy of the call log.
func (e *ScriptedEngine) Calls() []EngineCall {
	e.mu.Lock()
	defer e.mu.Unlock()
	return append([]EngineCall(nil), e.calls...)
}

// NumCalls returns the length of the call log.
func (e *ScriptedEngine) NumCalls() int {
	e.mu.Lock()
	defer e.mu.Unlock()
	return len(e.calls)
}

// Reset clears the call log (not the script).
func (e *ScriptedEngine) Reset() {
	e.mu.Lock()
	e.calls = nil
	e.mu.Unlock()
}

// SetVerdict scripts the verdict of the call with sequence number seq (counted from the
// last Reset).
func (e *ScriptedEngine) SetVerdict(seq int, v EngineVerdict) {
	e.mu.Lock()
	if e.Plan == nil {
		e.Plan = map[int]EngineVerdict{}
	}
	e.Plan[seq] = v
	e.mu.Unlock()
}

func (e *ScriptedEngine) record(ctx context.Context, c EngineCall) (bool, error) {
	e.mu.Lock()
	c.Seq = len(e.calls)
	c.CtxErr = ctx.Err()
	v := EngineValid
	if e.Script != nil {
		v = e.Script(&c)
	} else if pv, ok := e.Plan[c.Seq]; ok {
		v = pv
	}
	c.Verdict = v
	e.calls = append(e.calls, c)
	e.mu.Unlock()
	switch v {
	case EngineValid:
		return true, nil
	case EngineInvalid:
		return false, nil
	default:
		return false, ErrScriptedEngine
	}
}

func (e *ScriptedEngine) BellatrixNotifyNewPayload(ctx context.Context, p *bellatrix.ExecutionPayload) (bool, error) {
	return e.record(ctx, EngineCall{Fork: Bellatrix, Method: EngNotifyNewPayload, Payload: p,
		BlockHash: p.BlockHash, ParentHash: p.ParentHash, PrevRandao: p.PrevRandao, Timestamp: p.Timestamp})
}

func (e *ScriptedEngine) BellatrixIsValidBlockHash(ctx context.Context, p *bellatrix.ExecutionPayload) (bool, error) {
	return e.record(ctx, EngineCall{Fork: Bellatrix, Method: EngIsValidBlockHash, Payload: p,
		BlockHash: p.BlockHash, ParentHash: p.ParentHash, PrevRandao: p.PrevRandao, Timestamp: p.Timestamp})
}

func (e *ScriptedEngine) CapellaNotifyNewPayload(ctx context.Context, p *capella.ExecutionPayload) (bool, error) {
	return e.record(ctx, EngineCall{Fork: Capella, Method: EngNotifyNewPayload, Payload: p,
		BlockHash: p.BlockHash, ParentHash: p.ParentHash, PrevRandao: p.PrevRandao, Timestamp: p.Timestamp})
}

func (e *ScriptedEngine) CapellaIsValidBlockHash(ctx context.Context, p *capella.ExecutionPayload) (bool, error) {
	return e.record(ctx, EngineCall{Fork: Capella, Method: EngIsValidBlockHash, Payload: p,
		BlockHash: p.BlockHash, ParentHash: p.ParentHash, PrevRandao: p.PrevRandao, Timestamp: p.Timestamp})
}

func (e *ScriptedEngine) DenebNotifyNewPayload(ctx context.Context, p *deneb.ExecutionPayload, parentBeaconBlockRoot common.Root) (bool, error) {
	return e.record(ctx, EngineCall{Fork: Deneb, Method: EngNotifyNewPayload, Payload: p,
		BlockHash: p.BlockHash, ParentHash: p.ParentHash, PrevRandao: p.PrevRandao, Timestamp: p.Timestamp,
		ParentBeaconBlockRoot: parentBeaconBlockRoot})
}

func (e *ScriptedEngine) DenebIsValidVersionedHashes(ctx context.Context, p *deneb.ExecutionPayload, versionedHashes []common.Hash32) (bool, error) {
	return e.record(ctx, EngineCall{Fork: Deneb, Method: EngIsValidVersionedHashes, Payload: p,
		BlockHash: p.BlockHash, ParentHash: p.ParentHash, PrevRandao: p.PrevRandao, Timestamp: p.Timestamp,
		VersionedHashes: append([]common.Hash32(nil), versionedHashes...)})
}

func (e *ScriptedEngine) DenebIsValidBlockHash(ctx context.Context, p *deneb.ExecutionPayload, parentBeaconBlockRoot common.Root) (bool, error) {
	return e.record(ctx, EngineCall{Fork: Deneb, Method: EngIsValidBlockHash, Payload: p,
		BlockHash: p.BlockHash, ParentHash: p.ParentHash, PrevRandao: p.PrevRandao, Timestamp: p.Timestamp,
		ParentBeaconBlockRoot: parentBeaconBlockRoot})
}

var _ bellatrix.ExecutionEngine = (*ScriptedEngine)(nil)
var _ capella.ExecutionEngine = (*ScriptedEngine)(nil)
var _ deneb.ExecutionEngine = (*ScriptedEngine)(nil)
var _ common.ExecutionEngine = (*ScriptedEngine)(nil)

// alwaysValidEngine is used for dry runs (state-root computation) so that they leave
// no trace in the scripted engine.
type alwaysValidEngine struct{}

func (alwaysValidEngine) BellatrixNotifyNewPayload(context.Context, *bellatrix.ExecutionPayload) (bool, error) {
	return true, nil
}
func (alwaysValidEngine) BellatrixIsValidBlockHash(context.Context, *bellatrix.ExecutionPayload) (bool, error) {
	return true, nil
}
func (alwaysValidEngine) CapellaNotifyNewPayload(context.Context, *capella.ExecutionPayload) (bool, error) {
	return true, nil
}
func (alwaysValidEngine) CapellaIsValidBlockHash(context.Context, *capella.ExecutionPayload) (bool, error) {
	return true, nil
}
func (alwaysValidEngine) DenebNotifyNewPayload(context.Context, *deneb.ExecutionPayload, common.Root) (bool, error) {
	return true, nil
}
func (alwaysValidEngine) DenebIsValidVersionedHashes(context.Context, *deneb.ExecutionPayload, []common.Hash32) (bool, error) {
	return true, nil
}
func (alwaysValidEngine) DenebIsValidBlockHash(context.Context, *deneb.ExecutionPayload, common.Root) (bool, error) {
	return true, nil
}
