package chain

import (
	"fmt"
	"math/rand"
	"sort"

	"github.com/protolambda/zrnt/eth2/beacon/common"
)

// StepPlan is one slot of a scenario: either the slot is skipped (no block; the state
// is advanced lazily by the next block, or explicitly with AdvanceOnly) or a block is
// proposed. Everything in a StepPlan is state-independent ("intent"): concrete
// validators, committees and proofs are resolved by the Scenario runner against the live
// chain, deterministically from Seed. A StepPlan can therefore be generated up front,
// stored, and replayed.
type StepPlan struct {
	Slot common.Slot
	// Skip: no block at this slot.
	Skip bool
	// AdvanceOnly (with Skip): run ProcessSlots up to this slot as a step of its own
	// (a "Slots" event) instead of leaving it to the next block.
	AdvanceOnly bool

	// Offline validators neither attest nor sign sync messages for this slot.
	Offline []common.ValidatorIndex
	// NoAttest: nobody attests at this slot.
	NoAttest bool
	// WrongHead / WrongTarget: the attesters of this slot vote for a wrong head / target.
	WrongHead, WrongTarget bool
	// HoldAttestations: the block includes no attestations (they stay pooled), which
	// produces larger inclusion delays later.
	HoldAttestations bool
	// NewestFirst: fill the block with the newest pooled attestations first (default oldest).
	NewestFirst bool

	// Intents, each resolved to as many concrete operations as are possible (<= the
	// number asked for and <= the block limit).
	ProposerSlashings    int
	AttesterSlashings    int // each slashes AttesterSlashingSize validators
	AttesterSlashingSize int
	SurroundVote         bool
	Exits                int
	BLSChanges           int
	Blobs                int
	// Deposits made on the eth1 side at this slot (they become includable after the
	// eth1 vote adopts them).
	NewDeposits     int  // new validators with valid proof of possession, full balance
	TopUps          int  // top-ups of existing validators (1..3 increments)
	BadDeposits     int  // new validators with an INVALID proof of possession
	PartialDeposits int  // new validators with less than MAX_EFFECTIVE_BALANCE
	Eth1CredDeposit bool // new deposits use 0x01 credentials
	// Deposits are explicit deposits made on the eth1 side at this slot (before the counted ones).
	Deposits []DepositSpec
	// VoteNewEth1: vote for the deposit contract's current count (honest voters); if
	// false the proposer votes for the state's current eth1 data.
	VoteNewEth1 bool

	// Sync participation (altair+): fraction of positions, after removing Offline.
	// Negative = nobody. 0 = everybody.
	SyncFraction float64
	// PreMerge (bellatrix): keep the default payload.
	PreMerge bool

	// Reserve is the number of currently healthy validators the generator expects to
	// lose later without the runner's doing (e.g. the offline set of a coming leak, which
	// ends up ejected). The runner subtracts it from its budget for slashings and exits.
	Reserve int

	// Block, if set, is used as the base plan (its Slot is overwritten); the intents
	// above are added on top. For hand-written scenarios.
	Block *BlockPlan

	// Seed drives every choice made while resolving this step.
	Seed int64
}

// StepResult is what happened in one step.
type StepResult struct {
	Plan StepPlan
	// Kind is "skip" (nothing executed), "slots", "block", or "dead" (nothing executed: no
	// validator is active any more by the next epoch; RunScenario stops there without error).
	Kind string
	// Env is the produced block (Kind "block").
	Env *common.BeaconBlockEnvelope
	// BlockPlan is the resolved concrete plan (Kind "block").
	BlockPlan *BlockPlan
	// Err is the error of Produce/Apply/Slots (nil for honest scenarios unless zrnt misbehaves).
	Err error
	// Pre and Post are copies of the head before and after the step (nil for "skip").
	Pre, Post *StateCtx
}

// ScenarioOpts tunes RandomScenario.
type ScenarioOpts struct {
	// Epochs to generate (default 16, at least 12 recommended).
	Epochs int
	// Validators in the genesis registry (default DefaultValidatorCount is the caller's
	// business; the generator only needs the number to pick offline sets). Default 16.
	Validators int
	// SkipProb is the probability that a slot has no block (default 0.12).
	SkipProb float64
	// Calm disables slashings/exits/deposits (participation patterns only).
	Calm bool
}

// RandomScenario generates a long history as a list of state-independent StepPlans.
// It is organised in phases so that every run contains: skipped slots; full, ~2/3 and
// < 2/3 participation (a leak of MIN_EPOCHS_TO_INACTIVITY_PENALTY+3 epochs); finality
// before and after the leak; proposer and attester slashings (one block with several);
// a burst of exits larger than the churn; deposits of every kind with an eth1 voting
// campaign; BLS-to-execution changes (when capella is scheduled) followed by
// withdrawals; varying sync participation; blobs. Fork boundaries are crossed wherever
// the spec's schedule puts them.
func RandomScenario(rng *rand.Rand, spec *common.Spec, opts ScenarioOpts) []StepPlan {
	epochs := opts.Epochs
	if epochs == 0 {
		epochs = 16
	}
	nval := opts.Validators
	if nval == 0 {
		nval = 16
	}
	skipProb := opts.SkipProb
	if skipProb == 0 {
		skipProb = 0.12
	}
	spe := int(spec.SLOTS_PER_EPOCH)
	leakLen := int(spec.MIN_EPOCHS_TO_INACTIVITY_PENALTY) + 3

	// Phase layout (epochs): [0,warm) full participation; one epoch around 2/3;
	// leak; recovery until the end. Operations are sprinkled over the phases.
	warm := 4 // finality is reached at the end of epoch 3
	twoThirds := warm
	leakStart := warm + 1
	leakEnd := leakStart + leakLen
	if leakEnd > epochs-3 {
		leakEnd = epochs - 3
	}
	// offline set of the leak: 40..50% of the genesis validators
	perm := rng.Perm(nval)
	nOff := nval*2/5 + rng.Intn(nval/10+1)
	leakOffline := make([]common.ValidatorIndex, 0, nOff)
	for _, v := range perm[:nOff] {
		leakOffline = append(leakOffline, common.ValidatorIndex(v))
	}
	sort.Slice(leakOffline, func(i, j int) bool { return leakOffline[i] < leakOffline[j] })
	// ~2/3 epoch: exactly floor(n/3) offline (just enough stake for justification) or one more
	nThird := nval / 3
	if rng.Intn(2) == 0 {
		nThird++
	}
	perm2 := rng.Perm(nval)
	var thirdOffline []common.ValidatorIndex
	for _, v := range perm2[:nThird] {
		thirdOffline = append(thirdOffline, common.ValidatorIndex(v))
	}

	// epochs in which the eth1 campaign votes for new deposits: two full voting periods
	// starting at a period boundary after the deposits were made
	depositEpoch := 1
	slashEpoch := 2 + rng.Intn(2)
	exitEpoch := int(spec.SHARD_COMMITTEE_PERIOD) + rng.Intn(2)
	if exitEpoch < 2 {
		exitEpoch = 2
	}
	lateSlashEpoch := leakEnd + 1
	secondDepositEpoch := leakEnd
	blsEpoch := -1
	if spec.CAPELLA_FORK_EPOCH != FarFuture {
		blsEpoch = int(spec.CAPELLA_FORK_EPOCH)
		if blsEpoch < 1 {
			blsEpoch = 1
		}
	}

	var steps []StepPlan
	for slot := 1; slot <= epochs*spe; slot++ {
		epoch := slot / spe
		inEpoch := slot % spe
		st := StepPlan{Slot: common.Slot(slot), Seed: rng.Int63()}
		if epoch < leakStart {
			st.Reserve = nOff // the leak's offline set will be ejected or bled dry
		}
		st.Skip = rng.Float64() < skipProb
		if st.Skip && rng.Intn(4) == 0 {
			st.AdvanceOnly = true
		}
		// participation
		switch {
		case epoch == twoThirds:
			st.Offline = thirdOffline
		case epoch >= leakStart && epoch < leakEnd:
			st.Offline = leakOffline
		default:
			// sporadic absentees and wrong votes
			if rng.Intn(6) == 0 {
				st.Offline = []common.ValidatorIndex{common.ValidatorIndex(rng.Intn(nval))}
			}
			if rng.Intn(10) == 0 {
				st.WrongHead = true
			}
			if rng.Intn(25) == 0 {
				st.WrongTarget = true
			}
		}
		if rng.Intn(12) == 0 {
			st.HoldAttestations = true
		}
		if epoch >= leakStart && epoch < leakEnd {
			// During the leak every missed inclusion costs the ONLINE validators dearly
			// (phase0 especially); with 2 slots per epoch a skipped slot loses half an epoch
			// of attestations. Keep the survivors whole: no held attestations, and no
			// skipped slots unless epochs are long enough to catch up.
			st.HoldAttestations = false
			if spe < 4 {
				st.Skip, st.AdvanceOnly = false, false
			}
		}
		st.NewestFirst = rng.Intn(3) == 0
		// sync participation pattern
		switch rng.Intn(6) {
		case 0:
			st.SyncFraction = -1
		case 1:
			st.SyncFraction = 0.5
		case 2:
			st.SyncFraction = 0.25 + rng.Float64()*0.75
		}
		st.Blobs = rng.Intn(int(spec.MAX_BLOBS_PER_BLOCK) + 1)

		if !opts.Calm {
			big := 1
			if nval >= 16 {
				big = 2
			}
			event := false
			// deposits on the eth1 side + voting campaigns
			if epoch == depositEpoch && inEpoch == 1 {
				st.NewDeposits, st.TopUps, st.BadDeposits, st.PartialDeposits = 3, 1, 1, 1
			}
			if epoch == secondDepositEpoch && inEpoch == spe-1 {
				st.NewDeposits, st.TopUps = 2, 2
				st.Eth1CredDeposit = true
			}
			// honest voters report the newest contract state; now and then one does not
			st.VoteNewEth1 = epoch >= depositEpoch && rng.Intn(8) != 0
			// slashings
			if epoch == slashEpoch && inEpoch == 1 {
				st.ProposerSlashings, st.AttesterSlashings, st.AttesterSlashingSize = 1, 1, big
				event = true
			}
			if epoch == lateSlashEpoch && inEpoch == 0 {
				// several in one block
				st.ProposerSlashings, st.AttesterSlashings, st.AttesterSlashingSize, st.SurroundVote = 1, 1, 1, true
				event = true
			}
			if epoch == lateSlashEpoch && inEpoch == spe-1 {
				st.AttesterSlashings, st.AttesterSlashingSize = 1, 1
				event = true
			}
			// exits: a burst beyond the churn limit within one epoch
			if epoch == exitEpoch && inEpoch < 2 {
				st.Exits = int(spec.MAX_VOLUNTARY_EXITS) - inEpoch
				event = true
			}
			if epoch == exitEpoch+4 && inEpoch == 1 {
				st.Exits = 1
				event = true
			}
			// BLS changes as soon as capella is there, a few per block until everybody is done
			if blsEpoch >= 0 && epoch >= blsEpoch && epoch < blsEpoch+3 {
				st.BLSChanges = int(spec.MAX_BLS_TO_EXECUTION_CHANGES)
			}
			if event {
				st.Skip, st.AdvanceOnly = false, false
			}
		}
		// the merge: one or two pre-merge bellatrix blocks, then the transition
		if spec.BELLATRIX_FORK_EPOCH != FarFuture && epoch == int(spec.BELLATRIX_FORK_EPOCH) && inEpoch < 2 {
			st.PreMerge = true
		}
		steps = append(steps, st)
	}
	// make sure fork boundaries see both "block in the first slot" and "skipped first slot"
	// over different seeds: nothing to do, SkipProb takes care of it.
	return steps
}

// Scenario executes StepPlans on a chain, keeping the attestation pool between steps.
type Scenario struct {
	Chain *Chain
	// MinActive is the number of active, unslashed, non-exiting validators the runner
	// never goes below: it limits what slashing/exit intents may take out and trims
	// Offline sets that would leave fewer healthy validators attesting (default
	// max(2, registry/4) at the time NewScenario is called). This keeps the chain alive
	// even under S2/S4, where offline validators are ejected within an epoch or two.
	MinActive int
	// KeepStates makes every StepResult carry Pre/Post copies (default true via NewScenario).
	KeepStates bool

	pool []pooledAtt
	// validators the runner has already slashed/exited (pending in a produced block)
	spent map[common.ValidatorIndex]bool
	// deposits already adopted in eth1 votes target
	lastDuty common.Slot
}

type pooledAtt struct {
	plan AttPlan
}

// NewScenario prepares a runner on c.
func NewScenario(c *Chain) *Scenario {
	return &Scenario{Chain: c, MinActive: max(2, int(c.ValidatorCount())/4), KeepStates: true,
		spent: map[common.ValidatorIndex]bool{}, lastDuty: c.Slot()}
}

// RunScenario runs all steps on c and returns one result per step. It stops at the
// first error (the failing step is the last result) and, without error, when the active
// validator set is about to run empty (last result has Kind "dead"). The runner
// resolves intents defensively (see Scenario.MinActive), so the latter is rare.
func (c *Chain) RunScenario(steps []StepPlan) ([]StepResult, error) {
	sc := NewScenario(c)
	out := make([]StepResult, 0, len(steps))
	for _, st := range steps {
		r := sc.Step(st)
		out = append(out, r)
		if r.Err != nil {
			return out, fmt.Errorf("slot %d (%s): %w", st.Slot, r.Kind, r.Err)
		}
		if r.Kind == "dead" {
			break // the registry ran empty: the last result has Kind "dead", the rest is dropped
		}
	}
	return out, nil
}

// isHealthy: active, unslashed, not exiting and not about to be ejected.
func isHealthy(spec *common.Spec, v *common.FlatValidator, epoch common.Epoch) bool {
	return v.IsActive(epoch) && !v.Slashed && v.ExitEpoch == FarFuture && v.EffectiveBalance > spec.EJECTION_BALANCE
}

// healthyCount counts the healthy validators of the head state.
func (sc *Scenario) healthyCount() int {
	c := sc.Chain
	vals := c.Validators()
	epoch := c.Epoch()
	n := 0
	for i := range vals {
		if isHealthy(c.Spec, &vals[i], epoch) && !sc.spent[common.ValidatorIndex(i)] {
			n++
		}
	}
	return n
}

// aliveThrough tells whether, judging by the head registry, every epoch from the head's
// up to `last` has at least one active validator.
func (sc *Scenario) aliveThrough(last common.Epoch) bool {
	vals := sc.Chain.Validators()
	for e := sc.Chain.Epoch(); e <= last; e++ {
		any := false
		for i := range vals {
			if vals[i].IsActive(e) {
				any = true
				break
			}
		}
		if !any {
			return false
		}
	}
	return true
}

// trimOffline removes validators from the end of an offline set until at least
// MinActive healthy validators keep attesting.
func (sc *Scenario) trimOffline(offline []common.ValidatorIndex) []common.ValidatorIndex {
	if len(offline) == 0 {
		return offline
	}
	c := sc.Chain
	vals := c.Validators()
	epoch := c.Epoch()
	off := offlineSet(offline)
	online := 0
	for i := range vals {
		if isHealthy(c.Spec, &vals[i], epoch) && !off[common.ValidatorIndex(i)] && !sc.spent[common.ValidatorIndex(i)] {
			online++
		}
	}
	out := append([]common.ValidatorIndex(nil), offline...)
	for online < sc.MinActive && len(out) > 0 {
		last := out[len(out)-1]
		out = out[:len(out)-1]
		if int(last) < len(vals) && isHealthy(c.Spec, &vals[last], epoch) && !sc.spent[last] {
			online++
		}
	}
	return out
}

func offlineSet(vs []common.ValidatorIndex) map[common.ValidatorIndex]bool {
	if len(vs) == 0 {
		return nil
	}
	m := make(map[common.ValidatorIndex]bool, len(vs))
	for _, v := range vs {
		m[v] = true
	}
	return m
}

// Step executes one StepPlan.
func (sc *Scenario) Step(st StepPlan) (res StepResult) {
	res.Plan = st
	c := sc.Chain
	defer func() {
		if r := recover(); r != nil {
			if ie, ok := r.(internalError); ok {
				res.Err = ie.err
				return
			}
			panic(r)
		}
	}()
	rng := rand.New(rand.NewSource(st.Seed))
	if !sc.aliveThrough(c.Spec.SlotToEpoch(st.Slot) + 1) {
		// every validator has exited (or will have by then): zrnt cannot compute proposers
		// for an empty active set, the history ends here.
		res.Kind = "dead"
		return res
	}
	if sc.healthyCount() <= sc.MinActive {
		// liveness mode: too few healthy validators left, everybody behaves
		st.Offline, st.NoAttest, st.WrongHead, st.WrongTarget, st.HoldAttestations = nil, false, false, false, false
		st.Skip, st.AdvanceOnly = false, false
	}
	st.Offline = sc.trimOffline(st.Offline)
	res.Plan = st

	// eth1 side: deposits are made regardless of whether the slot has a block
	sc.makeDeposits(st, rng)

	// attestation duties of this slot are registered when the slot is passed (below)
	if st.Skip {
		sc.registerDuty(st)
		if !st.AdvanceOnly || st.Slot <= c.Slot() {
			res.Kind = "skip"
			return res
		}
		res.Kind = "slots"
		if sc.KeepStates {
			res.Pre = c.StateCtx.Copy(false)
		}
		res.Err = c.Slots(st.Slot)
		if sc.KeepStates && res.Err == nil {
			res.Post = c.StateCtx.Copy(false)
		}
		return res
	}

	res.Kind = "block"
	pre, err := c.PreState(st.Slot)
	if err != nil {
		res.Err = err
		return res
	}
	if prop, err := pre.Proposer(st.Slot); err == nil && pre.Validator(prop).Slashed && (st.Block == nil || st.Block.Proposer == nil) {
		// the slot's proposer is slashed: no valid block possible, the slot stays empty
		res.Kind = "skip"
		sc.registerDuty(st)
		return res
	}
	plan := sc.resolve(st, pre, rng)
	res.BlockPlan = &plan
	if sc.KeepStates {
		res.Pre = c.StateCtx.Copy(false)
	}
	env, err := ProduceOn(pre, c.Deposits, plan)
	if err != nil {
		res.Err = fmt.Errorf("produce: %w", err)
		return res
	}
	res.Env = env
	if err := c.Apply(env); err != nil {
		res.Err = fmt.Errorf("zrnt rejected an honest block: %w", err)
		return res
	}
	if sc.KeepStates {
		res.Post = c.StateCtx.Copy(false)
	}
	// attesters of this slot see the new block as head
	sc.registerDuty(st)
	return res
}

// registerDuty pools the attestations of st.Slot's committees.
func (sc *Scenario) registerDuty(st StepPlan) {
	if st.NoAttest {
		return
	}
	spec := sc.Chain.Spec
	// committee count of the slot's epoch: known only once a state is in (or next to)
	// that epoch; resolve lazily at inclusion time: store a plan per possible index.
	except := offlineSet(st.Offline)
	for i := uint64(0); i < uint64(spec.MAX_COMMITTEES_PER_SLOT); i++ {
		sc.pool = append(sc.pool, pooledAtt{plan: AttPlan{Slot: st.Slot, Index: common.CommitteeIndex(i), Except: except,
			WrongHead: st.WrongHead, WrongTarget: st.WrongTarget}})
	}
}

// takeAttestations picks includable pooled attestations for a block on pre.
func (sc *Scenario) takeAttestations(st StepPlan, pre *StateCtx) []AttPlan {
	spec := pre.Spec
	fork := pre.Fork()
	slot := pre.Slot()
	curEpoch := pre.Epoch()
	var keep []pooledAtt
	var cand []pooledAtt
	for _, p := range sc.pool {
		e := spec.SlotToEpoch(p.plan.Slot)
		first, last := InclusionWindow(spec, fork, p.plan.Slot)
		if e+1 < curEpoch || slot > last {
			continue // expired
		}
		if n, err := pre.CommitteeCount(e); err != nil || uint64(p.plan.Index) >= n {
			continue // no such committee
		}
		if slot < first {
			keep = append(keep, p)
			continue
		}
		cand = append(cand, p)
	}
	if st.HoldAttestations {
		sc.pool = append(keep, cand...)
		return nil
	}
	if st.NewestFirst {
		sort.SliceStable(cand, func(i, j int) bool { return cand[i].plan.Slot > cand[j].plan.Slot })
	} else {
		sort.SliceStable(cand, func(i, j int) bool { return cand[i].plan.Slot < cand[j].plan.Slot })
	}
	var out []AttPlan
	for _, p := range cand {
		if len(out) >= int(spec.MAX_ATTESTATIONS) {
			keep = append(keep, p)
			continue
		}
		// drop attestations nobody signs
		committee, err := pre.Committee(p.plan.Slot, p.plan.Index)
		if err != nil {
			continue
		}
		pos, _ := p.plan.selectPositions(committee)
		if len(pos) == 0 {
			continue
		}
		out = append(out, p.plan)
	}
	sc.pool = keep
	return out
}

func (sc *Scenario) makeDeposits(st StepPlan, rng *rand.Rand) {
	c := sc.Chain
	spec := c.Spec
	for _, d := range st.Deposits {
		c.AddDeposit(d)
	}
	for i := 0; i < st.NewDeposits; i++ {
		c.AddDeposit(DepositSpec{Key: c.NextFreeKey(), Eth1Creds: st.Eth1CredDeposit})
	}
	for i := 0; i < st.PartialDeposits; i++ {
		amt := spec.MIN_DEPOSIT_AMOUNT * common.Gwei(1+rng.Intn(int(spec.MAX_EFFECTIVE_BALANCE/spec.EFFECTIVE_BALANCE_INCREMENT)-1))
		c.AddDeposit(DepositSpec{Key: c.NextFreeKey(), Amount: amt})
	}
	for i := 0; i < st.BadDeposits; i++ {
		c.AddDeposit(DepositSpec{Key: c.NextFreeKey(), BadSignature: true})
	}
	for i := 0; i < st.TopUps; i++ {
		n := c.ValidatorCount()
		v := common.ValidatorIndex(rng.Intn(int(n)))
		amt := spec.EFFECTIVE_BALANCE_INCREMENT * common.Gwei(1+rng.Intn(3))
		// top-ups need no valid signature; alternate
		c.AddDeposit(DepositSpec{Key: c.KeyOf(v), Amount: amt, BadSignature: i%2 == 1})
	}
}

// resolve turns the intents of st into a concrete BlockPlan for a block on pre.
func (sc *Scenario) resolve(st StepPlan, pre *StateCtx, rng *rand.Rand) BlockPlan {
	c := sc.Chain
	spec := pre.Spec
	fork := pre.Fork()
	var plan BlockPlan
	if st.Block != nil {
		plan = *st.Block
	}
	plan.Slot = st.Slot
	plan.Attestations = append(plan.Attestations, sc.takeAttestations(st, pre)...)

	epoch := pre.Epoch()
	vals := pre.Validators()
	proposer, _ := pre.Proposer(st.Slot)

	// who may be taken out without endangering liveness
	off := offlineSet(st.Offline)
	healthy := 0
	for i := range vals {
		vi := common.ValidatorIndex(i)
		if isHealthy(spec, &vals[i], epoch) && !sc.spent[vi] && !off[vi] {
			healthy++
		}
	}
	budget := healthy - sc.MinActive - st.Reserve
	candidates := func(ok func(i common.ValidatorIndex, v *common.FlatValidator) bool) []common.ValidatorIndex {
		var out []common.ValidatorIndex
		for i := range vals {
			vi := common.ValidatorIndex(i)
			if vi == proposer || sc.spent[vi] {
				continue
			}
			if ok(vi, &vals[i]) {
				out = append(out, vi)
			}
		}
		rng.Shuffle(len(out), func(a, b int) { out[a], out[b] = out[b], out[a] })
		return out
	}
	slashable := func(i common.ValidatorIndex, v *common.FlatValidator) bool {
		return IsSlashable(v, epoch) && v.IsActive(epoch)
	}

	if n := min(st.ProposerSlashings, int(spec.MAX_PROPOSER_SLASHINGS)-len(plan.ProposerSlashings)); n > 0 {
		for _, v := range candidates(slashable) {
			if n == 0 || budget <= 0 {
				break
			}
			plan.ProposerSlashings = append(plan.ProposerSlashings, ProposerSlashingPlan{Proposer: v,
				HeaderSlot: common.Slot(rng.Intn(int(st.Slot) + 1))})
			sc.spent[v] = true
			n--
			budget--
		}
	}
	if n := min(st.AttesterSlashings, int(spec.MAX_ATTESTER_SLASHINGS)-len(plan.AttesterSlashings)); n > 0 {
		size := st.AttesterSlashingSize
		if size <= 0 {
			size = 1
		}
		cands := candidates(slashable)
		for ; n > 0 && budget >= size && len(cands) >= size; n-- {
			grp := append([]common.ValidatorIndex(nil), cands[:size]...)
			cands = cands[size:]
			for _, v := range grp {
				sc.spent[v] = true
			}
			budget -= size
			plan.AttesterSlashings = append(plan.AttesterSlashings, AttesterSlashingPlan{Indices: grp, Surround: st.SurroundVote, TargetEpoch: epoch})
		}
	}
	if n := min(st.Exits, int(spec.MAX_VOLUNTARY_EXITS)-len(plan.Exits)); n > 0 {
		for _, v := range candidates(func(i common.ValidatorIndex, _ *common.FlatValidator) bool { return pre.CanExit(i) }) {
			if n == 0 || budget <= 0 {
				break
			}
			// message epoch: sometimes an earlier epoch (valid: current_epoch >= exit.epoch)
			ep := epoch
			if rng.Intn(3) == 0 && ep > 0 {
				ep = common.Epoch(rng.Intn(int(ep) + 1))
			}
			plan.Exits = append(plan.Exits, ExitPlan{Validator: v, Epoch: &ep})
			sc.spent[v] = true
			n--
			budget--
		}
	}
	if fork >= Capella {
		if n := min(st.BLSChanges, int(spec.MAX_BLS_TO_EXECUTION_CHANGES)-len(plan.BLSChanges)); n > 0 {
			for i := range vals {
				vi := common.ValidatorIndex(i)
				if n == 0 {
					break
				}
				if pre.HasBLSCredentials(vi) {
					if _, known := pre.Keys.KeyOf(pre.PubkeyOf(vi)); known {
						plan.BLSChanges = append(plan.BLSChanges, BLSChangePlan{Validator: vi})
						n--
					}
				}
			}
		}
	}
	if fork >= Deneb && plan.Blobs == 0 {
		plan.Blobs = st.Blobs
	}
	if fork >= Altair {
		sp := plan.Sync
		switch {
		case st.SyncFraction < 0:
			sp.None = true
		case st.SyncFraction > 0:
			sp.Fraction = st.SyncFraction
		}
		if sp.Except == nil {
			sp.Except = offlineSet(st.Offline)
		}
		plan.Sync = sp
	}
	if st.PreMerge && fork == Bellatrix && !pre.MergeComplete() {
		plan.Payload.PreMerge = true
	}
	if st.VoteNewEth1 && plan.Eth1Vote == nil {
		cur, _ := pre.Eth1()
		if n := c.Deposits.Count(); n > uint64(cur.DepositCount) {
			v := c.Deposits.Eth1Data(n)
			plan.Eth1Vote = &v
		}
	}
	return plan
}

// DriveEth1Vote produces and applies empty-ish blocks (with the given attestation
// behaviour: everybody attests) voting for the deposit contract's current state until
// the beacon state's eth1_data has adopted it, starting a fresh attempt at every voting
// period boundary. It returns the number of blocks it took.
func (c *Chain) DriveEth1Vote() (blocks int, err error) {
	target := c.Deposits.Eth1Data(c.Deposits.Count())
	sc := NewScenario(c)
	sc.KeepStates = false
	period := uint64(c.Spec.EPOCHS_PER_ETH1_VOTING_PERIOD) * uint64(c.Spec.SLOTS_PER_EPOCH)
	for i := uint64(0); i < 2*period+1; i++ {
		if cur, _ := c.Eth1(); cur == target {
			return blocks, nil
		}
		r := sc.Step(StepPlan{Slot: c.Slot() + 1, Block: &BlockPlan{Eth1Vote: &target}, Seed: int64(i)})
		if r.Err != nil {
			return blocks, r.Err
		}
		blocks++
	}
	if cur, _ := c.Eth1(); cur == target {
		return blocks, nil
	}
	return blocks, fmt.Errorf("eth1 data not adopted after %d blocks", blocks)
}

// RunHonest appends fully honest blocks (everybody attests, full sync participation)
// for every slot up to and including `to`. Convenience for tests and setups.
func (c *Chain) RunHonest(to common.Slot) error {
	sc := NewScenario(c)
	sc.KeepStates = false
	for s := c.Slot() + 1; s <= to; s++ {
		if r := sc.Step(StepPlan{Slot: s, Seed: int64(s)}); r.Err != nil {
			return fmt.Errorf("slot %d: %w", s, r.Err)
		}
	}
	return nil
}
