package chain

import (
	"math/rand"
	"testing"

	"github.com/protolambda/zrnt/eth2/beacon/common"
)

type scenarioStats struct {
	blocks, skips, slotsSteps                          int
	ops                                                OpCounts
	maxFinalized                                       common.Epoch
	leakEpochs                                         int
	forks                                              map[Fork]int
	slashed, exited, ejected, activated, withdrawnFull int
}

func runRandom(t testing.TB, preset string, fs ForkSchedule, seed int64, opts ScenarioOpts) (*Chain, scenarioStats) {
	t.Helper()
	spec := NewSpec(preset, fs)
	n := DefaultValidatorCount(preset)
	c, err := NewGenesis(spec, GenesisOpts{Validators: n})
	if err != nil {
		t.Fatal(err)
	}
	opts.Validators = n
	steps := RandomScenario(rand.New(rand.NewSource(seed)), spec, opts)
	res, err := c.RunScenario(steps)
	if err != nil {
		t.Fatalf("%s %s seed %d: %v", preset, fs, seed, err)
	}
	st := scenarioStats{forks: map[Fork]int{}}
	lastFinDelayEpoch := common.Epoch(0)
	for _, r := range res {
		switch r.Kind {
		case "skip":
			st.skips++
		case "slots":
			st.slotsSteps++
		case "block":
			st.blocks++
			o := CountOps(r.Env.Body)
			st.ops.Attestations += o.Attestations
			st.ops.ProposerSlashings += o.ProposerSlashings
			st.ops.AttesterSlashings += o.AttesterSlashings
			st.ops.Deposits += o.Deposits
			st.ops.Exits += o.Exits
			st.ops.BLSChanges += o.BLSChanges
			st.ops.Blobs += o.Blobs
			st.ops.Withdrawals += o.Withdrawals
			st.forks[ForkOfBody(r.Env.Body)]++
			_, _, fin := r.Post.Justified()
			if fin.Epoch > st.maxFinalized {
				st.maxFinalized = fin.Epoch
			}
			e := r.Post.Epoch()
			if e > lastFinDelayEpoch && e > 0 && (e-1)-fin.Epoch > spec.MIN_EPOCHS_TO_INACTIVITY_PENALTY {
				st.leakEpochs++
				lastFinDelayEpoch = e
			}
		}
	}
	for i, v := range c.Validators() {
		if v.Slashed {
			st.slashed++
		} else if v.ExitEpoch != FarFuture {
			st.exited++
		}
		if i >= n && v.ActivationEpoch != FarFuture {
			st.activated++
		}
	}
	return c, st
}

func TestRandomScenarioS1(t *testing.T) {
	for seed := int64(1); seed <= 3; seed++ {
		c, st := runRandom(t, PresetS1, Forks(2, 4, 6, 9), seed, ScenarioOpts{})
		t.Logf("seed %d: %+v validators=%d", seed, st, c.ValidatorCount())
		if st.maxFinalized < 3 {
			t.Errorf("seed %d: finality stuck at %d", seed, st.maxFinalized)
		}
		if st.leakEpochs < 2 {
			t.Errorf("seed %d: no inactivity leak (%d epochs)", seed, st.leakEpochs)
		}
		if len(st.forks) != 5 {
			t.Errorf("seed %d: forks seen %v", seed, st.forks)
		}
		if st.ops.ProposerSlashings < 2 || st.ops.AttesterSlashings < 2 || st.ops.Exits < 3 || st.ops.Deposits < 6 || st.ops.BLSChanges < 4 || st.ops.Withdrawals == 0 {
			t.Errorf("seed %d: operations missing: %+v", seed, st.ops)
		}
		if st.activated == 0 {
			t.Errorf("seed %d: no deposited validator was activated", seed)
		}
	}
}

func TestRandomScenarioOtherPresets(t *testing.T) {
	cases := []struct {
		preset string
		fs     ForkSchedule
	}{
		{PresetS2, Forks(1, 3, 5, 7)},
		{PresetS3, Forks(2, 2, 5, 8)},
		{PresetS4, Forks(3, 6, 9, 12)},
		{PresetS1, Phase0Only},
		{PresetS1, AllAt(0)},
		{PresetMinimal, Forks(1, 2, 3, 4)},
	}
	for _, tc := range cases {
		tc := tc
		t.Run(tc.preset+"/"+tc.fs.String(), func(t *testing.T) {
			t.Parallel()
			for seed := int64(1); seed <= 2; seed++ {
				c, st := runRandom(t, tc.preset, tc.fs, seed, ScenarioOpts{})
				t.Logf("seed %d: %+v validators=%d", seed, st, c.ValidatorCount())
				if tc.preset == PresetS2 && st.exited <= st.ops.Exits {
					t.Errorf("S2: no ejections (exited %d, voluntary %d)", st.exited, st.ops.Exits)
				}
			}
		})
	}
}

func TestCornerScenarios(t *testing.T) {
	for _, ns := range CornerScenarios() {
		ns := ns
		t.Run(ns.Name, func(t *testing.T) {
			t.Parallel()
			c, res, err := ns.Run()
			if err != nil {
				t.Fatal(err)
			}
			blocks := 0
			var ops OpCounts
			for _, r := range res {
				if r.Kind == "block" {
					blocks++
					o := CountOps(r.Env.Body)
					ops.Attestations += o.Attestations
					ops.ProposerSlashings += o.ProposerSlashings
					ops.AttesterSlashings += o.AttesterSlashings
					ops.Deposits += o.Deposits
					ops.Exits += o.Exits
					ops.BLSChanges += o.BLSChanges
					ops.Withdrawals += o.Withdrawals
				}
			}
			_, cur, fin := c.Justified()
			t.Logf("%d blocks, slot %d fork %s, justified %d finalized %d, validators %d, ops %+v", blocks, c.Slot(), c.Fork(), cur.Epoch, fin.Epoch, c.ValidatorCount(), ops)
		})
	}
}
