package chain

import (
	"context"
	"fmt"

	"github.com/protolambda/zrnt/eth2/beacon"
	"github.com/protolambda/zrnt/eth2/beacon/common"
	"github.com/protolambda/zrnt/eth2/beacon/phase0"
)

// GenesisOpts parameterises NewGenesis. The zero value of every field has a default.
type GenesisOpts struct {
	// Validators is the number of genesis deposits, one per key 0..N-1
	// (default DefaultValidatorCount of nothing: 16).
	Validators int
	// Balances[i] is the deposit amount of validator i; missing or 0 entries mean
	// MAX_EFFECTIVE_BALANCE. Amounts below the maximum give a validator that is NOT
	// active at genesis (as per initialize_beacon_state_from_eth1); above is allowed.
	Balances []common.Gwei
	// Eth1Creds lists the validators that start with 0x01 (execution address)
	// credentials for Eth1Address(key). All others have BLS credentials whose key
	// (WithdrawalKey(i)) the harness owns.
	Eth1Creds []int
	// Eth1BlockHash seeds randao; default Eth1BlockHash(N).
	Eth1BlockHash *common.Root
	// Eth1Time is the eth1 timestamp; genesis_time = Eth1Time + GENESIS_DELAY.
	// Default 1000 (so genesis_time = 1007 for the scaled presets).
	Eth1Time common.Timestamp
	// PendingDeposits are appended to the deposit tree AFTER the genesis deposits and the
	// state's eth1_data is overwritten to commit to them (deposit_count > eth1_deposit_index
	// from slot 0 on), i.e. the first blocks must include them. This is the quick way to
	// have includable deposits; the honest way is DriveEth1Vote.
	PendingDeposits []DepositSpec
	// Keys: key ring to use (default: a new one).
	Keys *Keys
	// Engine: execution engine to install in spec.ExecutionEngine. Default: a new
	// ScriptedEngine, unless the spec already has an engine, which is then kept.
	Engine *ScriptedEngine
}

// Observer is notified around every step a Chain takes. In Before* callbacks the chain
// is in its pre-state; in After* callbacks it is in the post-state (err == nil) or
// still in the pre-state (err != nil: steps are transactional) with c.Scratch holding
// the partially mutated state the failed step left behind.
type Observer interface {
	BeforeSlots(c *Chain, to common.Slot)
	AfterSlots(c *Chain, to common.Slot, err error)
	BeforeBlock(c *Chain, env *common.BeaconBlockEnvelope)
	AfterBlock(c *Chain, env *common.BeaconBlockEnvelope, err error)
}

// Chain is a beacon chain under construction: the head state with its context, the
// deposit contract model, the execution engine and the log of applied blocks.
type Chain struct {
	*StateCtx // head: Spec, Keys, State, Epc (+ lookup helpers)

	// Deposits models the eth1 deposit contract (all deposits ever made, also those not
	// yet known to the beacon state).
	Deposits *DepositTree
	// Engine is the scripted engine installed in Spec.ExecutionEngine (nil if the caller
	// installed an engine of its own).
	Engine *ScriptedEngine
	// Blocks is the log of blocks applied since genesis (shared prefix with copies).
	Blocks []*common.BeaconBlockEnvelope
	// Genesis is a copy of the genesis state (after the optional upgrade at epoch 0).
	Genesis *StateCtx

	// Observer, Runner and Ctx can be set by consumers; Copy inherits them.
	Observer Observer
	Runner   Runner
	Ctx      context.Context

	// Scratch is the state a failed Slots/Apply left behind (nil after a success).
	Scratch *StateCtx
}

// NewGenesis builds a genesis state through zrnt's own eth1 genesis path
// (phase0.GenesisFromEth1 with signature and proof verification ON) from real,
// signed deposits with real proofs against the incremental deposit tree.
//
// Forks scheduled at epoch 0: zrnt's ProcessSlots only upgrades when it *arrives* at
// the fork slot, so a fork at epoch 0 would never activate. NewGenesis therefore calls
// UpgradeMaybe on the fresh genesis state, which performs upgrade_to_altair/... at slot 0
// (fork.previous_version = the preceding fork's version, fork.epoch = 0). Note that the
// genesis latest_block_header.body_root stays the root of the empty *phase0* body.
func NewGenesis(spec *common.Spec, opts GenesisOpts) (c *Chain, err error) {
	defer recoverTo(&err)
	n := opts.Validators
	if n == 0 {
		n = 16
	}
	if common.Slot(n) < spec.SLOTS_PER_EPOCH {
		return nil, fmt.Errorf("need at least SLOTS_PER_EPOCH=%d validators, got %d", spec.SLOTS_PER_EPOCH, n)
	}
	keys := opts.Keys
	if keys == nil {
		keys = NewKeys()
	}
	var engine *ScriptedEngine
	if opts.Engine != nil {
		engine = opts.Engine
		spec.ExecutionEngine = engine
	} else if spec.ExecutionEngine == nil {
		engine = NewScriptedEngine()
		spec.ExecutionEngine = engine
	} else if se, ok := spec.ExecutionEngine.(*ScriptedEngine); ok {
		engine = se
	}
	eth1 := map[int]bool{}
	for _, i := range opts.Eth1Creds {
		eth1[i] = true
	}
	tree := NewDepositTree()
	deps := make([]common.Deposit, n)
	for i := 0; i < n; i++ {
		ds := DepositSpec{Key: KeyID(i), Eth1Creds: eth1[i]}
		if i < len(opts.Balances) {
			ds.Amount = opts.Balances[i]
		}
		idx := tree.Append(MakeDepositData(spec, keys, ds))
		deps[i] = tree.Deposit(idx, idx+1) // proof against the incremental root, as at genesis
	}
	hash := Eth1BlockHash(uint64(n))
	if opts.Eth1BlockHash != nil {
		hash = *opts.Eth1BlockHash
	}
	eth1Time := opts.Eth1Time
	if eth1Time == 0 {
		eth1Time = 1000
	}
	state, epc, err := phase0.GenesisFromEth1(spec, hash, eth1Time, deps, false)
	if err != nil {
		return nil, fmt.Errorf("zrnt genesis: %w", err)
	}
	if got, want := must(state.Eth1Data()).DepositRoot, tree.Root(uint64(n)); got != want {
		return nil, fmt.Errorf("genesis deposit root %s differs from harness tree root %s", got, want)
	}
	if len(opts.PendingDeposits) > 0 {
		for _, ds := range opts.PendingDeposits {
			tree.Append(MakeDepositData(spec, keys, ds))
		}
		ed := tree.Eth1Data(tree.Count())
		ed.BlockHash = hash
		check(state.SetEth1Data(ed))
	}
	sc := &StateCtx{
		Spec:                spec,
		Keys:                keys,
		State:               &beacon.StandardUpgradeableBeaconState{BeaconState: state},
		Epc:                 epc,
		CompensateSyncCache: false,
	}
	// forks active at epoch 0
	if err := sc.State.UpgradeMaybe(context.Background(), spec, epc); err != nil {
		return nil, fmt.Errorf("genesis upgrade: %w", err)
	}
	c = &Chain{
		StateCtx: sc,
		Deposits: tree,
		Engine:   engine,
		Runner:   ZrntRunner{},
		Ctx:      context.Background(),
	}
	c.Genesis = sc.Copy(true)
	return c, nil
}

// Copy returns an independent chain positioned at the same head: state copied, epochs
// context cloned with its own pubkey cache, deposit tree cloned (value semantics), block
// log shared as an immutable prefix; keys, spec and engine are shared.
func (c *Chain) Copy() *Chain {
	n := len(c.Blocks)
	return &Chain{
		StateCtx: c.StateCtx.Copy(true),
		Deposits: c.Deposits.Clone(),
		Engine:   c.Engine,
		Blocks:   c.Blocks[:n:n],
		Genesis:  c.Genesis,
		Observer: c.Observer,
		Runner:   c.Runner,
		Ctx:      c.Ctx,
	}
}

// Head returns the head StateCtx (the embedded one); handy when passing it on.
func (c *Chain) Head() *StateCtx { return c.StateCtx }

// Slots runs ProcessSlots(to) on the head state (through c.Runner with c.Ctx).
// On failure the chain is left unchanged and c.Scratch holds the failed attempt.
func (c *Chain) Slots(to common.Slot) (err error) {
	if c.Observer != nil {
		c.Observer.BeforeSlots(c, to)
	}
	work := c.StateCtx.Copy(false)
	err = func() (err error) {
		defer recoverTo(&err)
		return c.Runner.ProcessSlots(c.Ctx, work.Spec, work.Epc, work.TransitionState(), to)
	}()
	if err == nil {
		c.StateCtx = work
		c.Scratch = nil
	} else {
		c.Scratch = work
	}
	if c.Observer != nil {
		c.Observer.AfterSlots(c, to, err)
	}
	return err
}

// Apply runs common.StateTransition(ctx, spec, epc, state, env, true) - slot
// processing up to env.Slot, then the block with full validation - and appends the
// block to the log. On failure the chain is left unchanged (c.Scratch holds the failed
// attempt).
func (c *Chain) Apply(env *common.BeaconBlockEnvelope) (err error) {
	if c.Observer != nil {
		c.Observer.BeforeBlock(c, env)
	}
	// A block with deposits extends the pubkey cache: give the attempt its own cache so a
	// rejected block cannot leave entries behind in the cache shared with the head.
	work := c.StateCtx.Copy(envHasDeposits(env))
	err = func() (err error) {
		defer recoverTo(&err)
		return c.Runner.StateTransition(c.Ctx, work.Spec, work.Epc, work.TransitionState(), env, true)
	}()
	if err == nil {
		c.StateCtx = work
		c.Scratch = nil
		c.Blocks = append(c.Blocks, env)
	} else {
		c.Scratch = work
	}
	if c.Observer != nil {
		c.Observer.AfterBlock(c, env, err)
	}
	return err
}

// ProduceAndApply is Produce followed by Apply.
func (c *Chain) ProduceAndApply(plan BlockPlan) (*common.BeaconBlockEnvelope, error) {
	env, err := c.Produce(plan)
	if err != nil {
		return nil, fmt.Errorf("produce slot %d: %w", plan.Slot, err)
	}
	if err := c.Apply(env); err != nil {
		return env, fmt.Errorf("apply slot %d: %w", plan.Slot, err)
	}
	return env, nil
}

// AddDeposit makes a deposit on the eth1 side (appends to the deposit tree). It becomes
// includable once the beacon state's eth1_data covers it (DriveEth1Vote).
func (c *Chain) AddDeposit(d DepositSpec) uint64 {
	return c.Deposits.Append(MakeDepositData(c.Spec, c.Keys, d))
}

// NextFreeKey returns the smallest validator KeyID used neither by the registry nor by
// a deposit in the tree: the key for the next new depositor.
func (c *Chain) NextFreeKey() KeyID {
	used := map[common.BLSPubkey]bool{}
	for i := uint64(0); i < c.Deposits.Count(); i++ {
		used[c.Deposits.Data(i).Pubkey] = true
	}
	for k := KeyID(0); ; k++ {
		if !used[c.Keys.Pubkey(k)] {
			return k
		}
	}
}
