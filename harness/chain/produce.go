package chain

import (
	"bytes"
	"context"
	"errors"
	"fmt"

	"github.com/protolambda/zrnt/eth2/beacon"
	"github.com/protolambda/zrnt/eth2/beacon/altair"
	"github.com/protolambda/zrnt/eth2/beacon/bellatrix"
	"github.com/protolambda/zrnt/eth2/beacon/capella"
	"github.com/protolambda/zrnt/eth2/beacon/common"
	"github.com/protolambda/zrnt/eth2/beacon/deneb"
	"github.com/protolambda/zrnt/eth2/beacon/phase0"
	"github.com/protolambda/ztyp/codec"
	"github.com/protolambda/ztyp/tree"
)

// BlockPlan says what a produced block contains. The zero value (plus Slot) is an
// honest block without optional operations: correct proposer, parent, randao, a vote
// for the state's current eth1 data, the deposits the state requires, full sync
// participation (altair+), a regular payload (bellatrix+).
type BlockPlan struct {
	Slot     common.Slot
	Graffiti common.Root

	// Eth1Vote: nil = vote for state.eth1_data (no change). Use c.Deposits.Eth1Data(n)
	// to vote for the deposit contract after n deposits, or any value.
	Eth1Vote *common.Eth1Data

	Attestations      []AttPlan
	ProposerSlashings []ProposerSlashingPlan
	AttesterSlashings []AttesterSlashingPlan
	Exits             []ExitPlan
	BLSChanges        []BLSChangePlan // capella+ (error on earlier forks)
	Sync              SyncPlan        // altair+ (ignored on phase0); zero value = everybody
	Payload           PayloadPlan     // bellatrix+ (ignored earlier)
	Blobs             int             // deneb+: number of blob KZG commitments (ignored earlier)

	// Deposits are filled in automatically: exactly the deposits the (post-vote) eth1
	// data demands, min(MAX_DEPOSITS, deposit_count - eth1_deposit_index), taken from
	// c.Deposits with proofs against that eth1 data. NoDeposits suppresses this (invalid
	// block if any were due).
	NoDeposits bool

	// Ready-made operations appended verbatim after the planned ones.
	RawAttestations      []phase0.Attestation
	RawProposerSlashings []phase0.ProposerSlashing
	RawAttesterSlashings []phase0.AttesterSlashing
	RawDeposits          []common.Deposit
	RawExits             []phase0.SignedVoluntaryExit
	RawBLSChanges        []common.SignedBLSToExecutionChange

	// ----- overrides for deriving invalid blocks (nil/zero = honest) -----

	// MutateBody edits the assembled body before the state root is computed and the
	// block is signed. The body is one of *phase0/altair/bellatrix/capella/deneb.BeaconBlockBody.
	MutateBody func(fork Fork, body common.SpecObj)
	// RandaoReveal replaces the reveal.
	RandaoReveal *common.BLSSignature
	// Proposer / ParentRoot / StateRoot replace header fields. With a wrong proposer the
	// block is still signed by that validator's key unless Seal says otherwise.
	Proposer   *common.ValidatorIndex
	ParentRoot *common.Root
	StateRoot  *common.Root
	// Seal controls the proposer signature.
	Seal SealOpts
}

// SealOpts controls how a block is signed. The zero value signs honestly: key of the
// header's proposer, DOMAIN_BEACON_PROPOSER, the state's current fork version, the
// state's genesis validators root.
type SealOpts struct {
	Signer      *KeyID                // signing key
	DomainType  *common.BLSDomainType // domain type
	ForkVersion *common.Version       // fork version in the domain
	GVR         *common.Root          // genesis validators root in the domain
	Message     *common.Root          // sign this root instead of the block root
	// Signature, if set, is used verbatim (no signing).
	Signature *common.BLSSignature
	// ForkDigest of the envelope; default compute_fork_digest(state.fork.current_version, gvr),
	// which zrnt checks against the version it verifies with.
	ForkDigest *common.ForkDigest
}

// ErrProposerSlashed is returned by Produce when the expected proposer of the slot is
// slashed (no valid block can exist at that slot).
var ErrProposerSlashed = errors.New("expected proposer is slashed, the slot must stay empty")

// Produce builds a signed block for plan.Slot on top of the chain's head (the head is
// not modified): the head state is copied and advanced through empty slots (epoch
// transitions, fork upgrades), the body is assembled for the fork active at that slot,
// the state root is obtained by running zrnt's block processing WITHOUT validation on
// another copy, and the block is signed by the expected proposer.
//
// If the plan makes the block invalid (overrides, raw operations), the state-root dry
// run fails; the block is then sealed with state root zero unless plan.StateRoot is
// given. Honest plans that cannot be built (e.g. an exit that is not yet allowed is
// NOT detected here - that yields an invalid block - but an attestation for an unknown
// committee is) return an error.
func (c *Chain) Produce(plan BlockPlan) (env *common.BeaconBlockEnvelope, err error) {
	defer recoverTo(&err)
	pre, err := c.PreState(plan.Slot)
	if err != nil {
		return nil, err
	}
	return ProduceOn(pre, c.Deposits, plan)
}

// PreState returns a copy of the head advanced to slot (ProcessSlots), i.e. the state a
// block at that slot is processed on. The copy does not share mutable data with the
// chain and uses an always-valid engine (no trace in c.Engine).
func (c *Chain) PreState(slot common.Slot) (pre *StateCtx, err error) {
	defer recoverTo(&err)
	cur := c.Slot()
	if slot <= cur {
		return nil, fmt.Errorf("block slot %d is not after head state slot %d", slot, cur)
	}
	pre = c.StateCtx.Copy(false).dryRun()
	if err := pre.Advance(slot); err != nil {
		return nil, fmt.Errorf("advance to slot %d: %w", slot, err)
	}
	return pre, nil
}

// dryRun returns s with a spec whose execution engine accepts everything.
func (s *StateCtx) dryRun() *StateCtx {
	specCopy := *s.Spec
	specCopy.ExecutionEngine = alwaysValidEngine{}
	return s.withSpec(&specCopy)
}

// ProduceOn is Produce on an explicit pre-state (already advanced to plan.Slot) and
// deposit tree. pre is not modified.
func ProduceOn(pre *StateCtx, deposits *DepositTree, plan BlockPlan) (env *common.BeaconBlockEnvelope, err error) {
	defer recoverTo(&err)
	if pre.Slot() != plan.Slot {
		return nil, fmt.Errorf("pre-state at slot %d, plan for slot %d", pre.Slot(), plan.Slot)
	}
	spec := pre.Spec
	fork := pre.Fork()

	proposer, err := pre.Proposer(plan.Slot)
	if err != nil {
		return nil, err
	}
	if plan.Proposer != nil {
		proposer = *plan.Proposer
	} else if pre.Validator(proposer).Slashed {
		// A slashed validator stays in the proposer lottery until it exits, but its blocks are
		// invalid: honest chains have an empty slot here. Set plan.Proposer to force a block.
		return nil, fmt.Errorf("slot %d, proposer %d: %w", plan.Slot, proposer, ErrProposerSlashed)
	}

	// --- common body parts ---
	var reveal common.BLSSignature
	if plan.RandaoReveal != nil {
		reveal = *plan.RandaoReveal
	} else if uint64(proposer) < pre.ValidatorCount() {
		reveal = pre.MakeRandaoReveal(proposer)
	}
	curEth1, depIndex := pre.Eth1()
	vote := curEth1
	if plan.Eth1Vote != nil {
		vote = *plan.Eth1Vote
	}

	var pss phase0.ProposerSlashings
	for _, p := range plan.ProposerSlashings {
		ps, err := pre.MakeProposerSlashing(p)
		if err != nil {
			return nil, fmt.Errorf("proposer slashing: %w", err)
		}
		pss = append(pss, *ps)
	}
	pss = append(pss, plan.RawProposerSlashings...)

	var ass phase0.AttesterSlashings
	for _, p := range plan.AttesterSlashings {
		as, err := pre.MakeAttesterSlashing(p)
		if err != nil {
			return nil, fmt.Errorf("attester slashing: %w", err)
		}
		ass = append(ass, *as)
	}
	ass = append(ass, plan.RawAttesterSlashings...)

	var atts phase0.Attestations
	for _, p := range plan.Attestations {
		a, err := pre.MakeAttestation(p)
		if err != nil {
			return nil, fmt.Errorf("attestation (slot %d, committee %d): %w", p.Slot, p.Index, err)
		}
		if a != nil {
			atts = append(atts, *a)
		}
	}
	atts = append(atts, plan.RawAttestations...)

	var deps phase0.Deposits
	if !plan.NoDeposits {
		eff := EffectiveEth1Data(pre, vote)
		if eff.DepositCount > depIndex {
			count := uint64(eff.DepositCount)
			if count > deposits.Count() || deposits.Root(count) != eff.DepositRoot {
				return nil, fmt.Errorf("state eth1 data (count %d, root %s) does not match the harness deposit tree: cannot build deposit proofs", count, eff.DepositRoot)
			}
			n := count - uint64(depIndex)
			if m := uint64(spec.MAX_DEPOSITS); n > m {
				n = m
			}
			for i := uint64(0); i < n; i++ {
				deps = append(deps, deposits.Deposit(uint64(depIndex)+i, count))
			}
		}
	}
	deps = append(deps, plan.RawDeposits...)

	var exits phase0.VoluntaryExits
	for _, p := range plan.Exits {
		e, err := pre.MakeExit(p)
		if err != nil {
			return nil, fmt.Errorf("exit: %w", err)
		}
		exits = append(exits, *e)
	}
	exits = append(exits, plan.RawExits...)

	var sync altair.SyncAggregate
	if fork >= Altair {
		agg, err := pre.MakeSyncAggregate(plan.Sync)
		if err != nil {
			return nil, fmt.Errorf("sync aggregate: %w", err)
		}
		sync = *agg
	}

	var payload *Payload
	if fork >= Bellatrix {
		if fork == Bellatrix && plan.Payload.PreMerge {
			payload = &Payload{} // default payload: execution not enabled
		} else {
			payload, err = pre.BuildPayload(plan.Payload)
			if err != nil {
				return nil, err
			}
		}
	}

	var changes common.SignedBLSToExecutionChanges
	if len(plan.BLSChanges)+len(plan.RawBLSChanges) > 0 && fork < Capella {
		return nil, fmt.Errorf("BLS-to-execution changes do not exist in fork %s", fork)
	}
	for _, p := range plan.BLSChanges {
		ch, err := pre.MakeBLSChange(p)
		if err != nil {
			return nil, fmt.Errorf("bls change: %w", err)
		}
		changes = append(changes, *ch)
	}
	changes = append(changes, plan.RawBLSChanges...)

	var blobs deneb.KZGCommitments
	if fork >= Deneb {
		for i := 0; i < plan.Blobs; i++ {
			blobs = append(blobs, MakeCommitment(plan.Slot, i))
		}
	}

	// --- fork-specific body ---
	var body common.SpecObj
	switch fork {
	case Phase0:
		body = &phase0.BeaconBlockBody{RandaoReveal: reveal, Eth1Data: vote, Graffiti: plan.Graffiti,
			ProposerSlashings: pss, AttesterSlashings: ass, Attestations: atts, Deposits: deps, VoluntaryExits: exits}
	case Altair:
		body = &altair.BeaconBlockBody{RandaoReveal: reveal, Eth1Data: vote, Graffiti: plan.Graffiti,
			ProposerSlashings: pss, AttesterSlashings: ass, Attestations: atts, Deposits: deps, VoluntaryExits: exits,
			SyncAggregate: sync}
	case Bellatrix:
		body = &bellatrix.BeaconBlockBody{RandaoReveal: reveal, Eth1Data: vote, Graffiti: plan.Graffiti,
			ProposerSlashings: pss, AttesterSlashings: ass, Attestations: atts, Deposits: deps, VoluntaryExits: exits,
			SyncAggregate: sync, ExecutionPayload: payload.ToBellatrix()}
	case Capella:
		body = &capella.BeaconBlockBody{RandaoReveal: reveal, Eth1Data: vote, Graffiti: plan.Graffiti,
			ProposerSlashings: pss, AttesterSlashings: ass, Attestations: atts, Deposits: deps, VoluntaryExits: exits,
			SyncAggregate: sync, ExecutionPayload: payload.ToCapella(), BLSToExecutionChanges: changes}
	case Deneb:
		body = &deneb.BeaconBlockBody{RandaoReveal: reveal, Eth1Data: vote, Graffiti: plan.Graffiti,
			ProposerSlashings: pss, AttesterSlashings: ass, Attestations: atts, Deposits: deps, VoluntaryExits: exits,
			SyncAggregate: sync, ExecutionPayload: payload.ToDeneb(), BLSToExecutionChanges: changes, BlobKZGCommitments: blobs}
	}
	if plan.MutateBody != nil {
		plan.MutateBody(fork, body)
	}

	parent := pre.HeadRoot()
	if plan.ParentRoot != nil {
		parent = *plan.ParentRoot
	}
	header := common.BeaconBlockHeader{
		Slot:          plan.Slot,
		ProposerIndex: proposer,
		ParentRoot:    parent,
		BodyRoot:      body.HashTreeRoot(spec, tree.GetHashFn()),
	}
	env = &common.BeaconBlockEnvelope{BeaconBlockHeader: header, Body: body}
	if plan.StateRoot != nil {
		env.StateRoot = *plan.StateRoot
	} else if root, err := ComputeStateRoot(pre, env); err == nil {
		env.StateRoot = root
	}
	Seal(pre, env, plan.Seal)
	return env, nil
}

// EffectiveEth1Data returns the state's eth1_data as it will be right after
// process_eth1_data of a block voting `vote` on pre: the vote wins if, counting itself,
// more than half of the voting period's slots voted for it.
func EffectiveEth1Data(pre *StateCtx, vote common.Eth1Data) common.Eth1Data {
	cur, _ := pre.Eth1()
	votes := must(pre.State.Eth1DataVotes())
	n := must(votes.Count(vote)) + 1
	period := uint64(pre.Spec.EPOCHS_PER_ETH1_VOTING_PERIOD) * uint64(pre.Spec.SLOTS_PER_EPOCH)
	if n*2 > period {
		return vote
	}
	return cur
}

// ComputeStateRoot returns the post-state root of env processed on pre (already at
// env.Slot): zrnt's PostSlotTransition with validation OFF on a copy, with an
// always-valid execution engine. Operation signatures are still verified by zrnt
// (only the proposer signature and the state root check are skipped).
func ComputeStateRoot(pre *StateCtx, env *common.BeaconBlockEnvelope) (root common.Root, err error) {
	defer recoverTo(&err)
	work := pre.Copy(envHasDeposits(env)).dryRun()
	if err := common.PostSlotTransition(context.Background(), work.Spec, work.Epc, work.State, env, false); err != nil {
		return common.Root{}, err
	}
	return work.StateRoot(), nil
}

// Seal (re)computes env.BlockRoot from the header, sets the fork digest and signs the
// block according to opts, as seen from pre (the state at env.Slot before the block).
func Seal(pre *StateCtx, env *common.BeaconBlockEnvelope, opts SealOpts) {
	env.BlockRoot = env.BeaconBlockHeader.HashTreeRoot(tree.GetHashFn())
	f := pre.ForkData()
	dom := Domain{Type: common.DOMAIN_BEACON_PROPOSER, Version: f.CurrentVersion, GVR: pre.GVR()}
	env.ForkDigest = common.ComputeForkDigest(f.CurrentVersion, dom.GVR)
	if opts.ForkDigest != nil {
		env.ForkDigest = *opts.ForkDigest
	}
	if opts.Signature != nil {
		env.Signature = *opts.Signature
		return
	}
	if opts.DomainType != nil {
		dom.Type = *opts.DomainType
	}
	if opts.ForkVersion != nil {
		dom.Version = *opts.ForkVersion
	}
	if opts.GVR != nil {
		dom.GVR = *opts.GVR
	}
	msg := env.BlockRoot
	if opts.Message != nil {
		msg = *opts.Message
	}
	var signer KeyID
	switch {
	case opts.Signer != nil:
		signer = *opts.Signer
	case uint64(env.ProposerIndex) < pre.ValidatorCount():
		signer = pre.KeyOf(env.ProposerIndex)
	default:
		signer = KeyID(env.ProposerIndex) // out-of-range proposer: some key, the block is invalid anyway
	}
	env.Signature = pre.Keys.Sign1(signer, msg, dom)
}

// SignBlock is Seal for callers that hold a Chain positioned right before the block.
func (c *Chain) SignBlock(env *common.BeaconBlockEnvelope, opts SealOpts) error {
	pre, err := c.PreState(env.Slot)
	if err != nil {
		return err
	}
	Seal(pre, env, opts)
	return nil
}

// Reseal recomputes body root, block root and signature of env after its body or
// header was edited; the state root is left as it is.
func Reseal(pre *StateCtx, env *common.BeaconBlockEnvelope, opts SealOpts) {
	env.BodyRoot = env.Body.HashTreeRoot(pre.Spec, tree.GetHashFn())
	Seal(pre, env, opts)
}

// CloneEnvelope deep-copies an envelope through SSZ (so the copy's body can be edited).
func CloneEnvelope(spec *common.Spec, env *common.BeaconBlockEnvelope) (*common.BeaconBlockEnvelope, error) {
	signed, err := beacon.EnvelopeToSignedBeaconBlock(env)
	if err != nil {
		return nil, err
	}
	var buf bytes.Buffer
	if err := signed.Serialize(spec, codec.NewEncodingWriter(&buf)); err != nil {
		return nil, err
	}
	var out interface {
		common.SpecObj
		common.EnvelopeBuilder
	}
	switch env.Body.(type) {
	case *phase0.BeaconBlockBody:
		out = new(phase0.SignedBeaconBlock)
	case *altair.BeaconBlockBody:
		out = new(altair.SignedBeaconBlock)
	case *bellatrix.BeaconBlockBody:
		out = new(bellatrix.SignedBeaconBlock)
	case *capella.BeaconBlockBody:
		out = new(capella.SignedBeaconBlock)
	case *deneb.BeaconBlockBody:
		out = new(deneb.SignedBeaconBlock)
	default:
		return nil, fmt.Errorf("unsupported body %T", env.Body)
	}
	data := buf.Bytes()
	if err := out.Deserialize(spec, codec.NewDecodingReader(bytes.NewReader(data), uint64(len(data)))); err != nil {
		return nil, fmt.Errorf("re-decoding block: %w", err)
	}
	return out.Envelope(spec, env.ForkDigest), nil
}

// EncodeEnvelope returns the SSZ encoding of the signed block.
func EncodeEnvelope(spec *common.Spec, env *common.BeaconBlockEnvelope) ([]byte, error) {
	signed, err := beacon.EnvelopeToSignedBeaconBlock(env)
	if err != nil {
		return nil, err
	}
	var buf bytes.Buffer
	if err := signed.Serialize(spec, codec.NewEncodingWriter(&buf)); err != nil {
		return nil, err
	}
	return buf.Bytes(), nil
}

// BodyOps gives uniform access to the operation lists every fork's body has.
type BodyOps struct {
	RandaoReveal      *common.BLSSignature
	Eth1Data          *common.Eth1Data
	Graffiti          *common.Root
	ProposerSlashings *phase0.ProposerSlashings
	AttesterSlashings *phase0.AttesterSlashings
	Attestations      *phase0.Attestations
	Deposits          *phase0.Deposits
	VoluntaryExits    *phase0.VoluntaryExits
	SyncAggregate     *altair.SyncAggregate               // nil on phase0
	BLSChanges        *common.SignedBLSToExecutionChanges // nil before capella
	BlobCommitments   *deneb.KZGCommitments               // nil before deneb
}

// OpsOf returns pointers into the body's fields (edit through them, then Reseal).
func OpsOf(body common.SpecObj) *BodyOps {
	switch b := body.(type) {
	case *phase0.BeaconBlockBody:
		return &BodyOps{&b.RandaoReveal, &b.Eth1Data, &b.Graffiti, &b.ProposerSlashings, &b.AttesterSlashings, &b.Attestations, &b.Deposits, &b.VoluntaryExits, nil, nil, nil}
	case *altair.BeaconBlockBody:
		return &BodyOps{&b.RandaoReveal, &b.Eth1Data, &b.Graffiti, &b.ProposerSlashings, &b.AttesterSlashings, &b.Attestations, &b.Deposits, &b.VoluntaryExits, &b.SyncAggregate, nil, nil}
	case *bellatrix.BeaconBlockBody:
		return &BodyOps{&b.RandaoReveal, &b.Eth1Data, &b.Graffiti, &b.ProposerSlashings, &b.AttesterSlashings, &b.Attestations, &b.Deposits, &b.VoluntaryExits, &b.SyncAggregate, nil, nil}
	case *capella.BeaconBlockBody:
		return &BodyOps{&b.RandaoReveal, &b.Eth1Data, &b.Graffiti, &b.ProposerSlashings, &b.AttesterSlashings, &b.Attestations, &b.Deposits, &b.VoluntaryExits, &b.SyncAggregate, &b.BLSToExecutionChanges, nil}
	case *deneb.BeaconBlockBody:
		return &BodyOps{&b.RandaoReveal, &b.Eth1Data, &b.Graffiti, &b.ProposerSlashings, &b.AttesterSlashings, &b.Attestations, &b.Deposits, &b.VoluntaryExits, &b.SyncAggregate, &b.BLSToExecutionChanges, &b.BlobKZGCommitments}
	}
	panic(fmt.Sprintf("unsupported body %T", body))
}

func envHasDeposits(env *common.BeaconBlockEnvelope) bool {
	return len(*OpsOf(env.Body).Deposits) > 0
}

// OpCounts summarises the operations of a block.
type OpCounts struct {
	ProposerSlashings, AttesterSlashings, Attestations, Deposits, Exits, BLSChanges, Blobs, SyncBits, Withdrawals int
}

// CountOps counts the operations in a body.
func CountOps(body common.SpecObj) (n OpCounts) {
	o := OpsOf(body)
	n.ProposerSlashings, n.AttesterSlashings, n.Attestations = len(*o.ProposerSlashings), len(*o.AttesterSlashings), len(*o.Attestations)
	n.Deposits, n.Exits = len(*o.Deposits), len(*o.VoluntaryExits)
	if o.BLSChanges != nil {
		n.BLSChanges = len(*o.BLSChanges)
	}
	if o.BlobCommitments != nil {
		n.Blobs = len(*o.BlobCommitments)
	}
	if o.SyncAggregate != nil {
		for _, b := range o.SyncAggregate.SyncCommitteeBits {
			for ; b != 0; b &= b - 1 {
				n.SyncBits++
			}
		}
	}
	if p := PayloadOf(body); p != nil {
		n.Withdrawals = len(p.Withdrawals)
	}
	return n
}
