package chain

import (
	"sync"
	"testing"

	"github.com/protolambda/zrnt/eth2/beacon/common"
)

// richChain returns a chain on fork f whose next block (slot c.Slot()+1) can carry one
// operation of every kind, and the plan of that honest block.
func richChain(t *testing.T, f Fork) (*Chain, BlockPlan) {
	t.Helper()
	c := newChain(t, PresetS1, scheduleFor(f), nil)
	if err := c.RunHonest(5); err != nil {
		t.Fatal(err)
	}
	for i := 0; i < 3; i++ {
		c.AddDeposit(DepositSpec{Key: c.NextFreeKey()})
	}
	c.AddDeposit(DepositSpec{Key: 2, Amount: 1000})
	c.AddDeposit(DepositSpec{Key: c.NextFreeKey()})
	if _, err := c.DriveEth1Vote(); err != nil {
		t.Fatal(err)
	}
	ed, idx := c.Eth1()
	if uint64(ed.DepositCount)-uint64(idx) < 2 {
		t.Fatalf("expected deposits to be due: %d/%d", idx, ed.DepositCount)
	}
	slot := c.Slot() + 1
	pre, err := c.PreState(slot)
	if err != nil {
		t.Fatal(err)
	}
	prop, _ := pre.Proposer(slot)
	var free []common.ValidatorIndex
	for i := common.ValidatorIndex(0); i < 16; i++ {
		if i != prop {
			free = append(free, i)
		}
	}
	plan := BlockPlan{
		Slot:              slot,
		Attestations:      []AttPlan{{Slot: slot - 1, Index: 0}, {Slot: slot - 1, Index: 1}},
		ProposerSlashings: []ProposerSlashingPlan{{Proposer: free[0]}},
		AttesterSlashings: []AttesterSlashingPlan{{Indices: free[1:3]}},
		Exits:             []ExitPlan{{Validator: free[3]}},
		Blobs:             1,
	}
	if f >= Capella {
		plan.BLSChanges = []BLSChangePlan{{Validator: free[4]}}
	}
	return c, plan
}

func TestVariants(t *testing.T) {
	var mu sync.Mutex
	covered := map[string]map[Fork]string{}
	note := func(name string, f Fork, msg string) {
		mu.Lock()
		covered[name][f] = msg
		mu.Unlock()
	}
	for _, v := range Variants() {
		covered[v.Name] = map[Fork]string{}
	}
	forEachFork(t, func(t *testing.T, f Fork) {
		type base struct {
			name string
			c    *Chain
			plan BlockPlan
		}
		rc, rplan := richChain(t, f)
		early := newChain(t, PresetS1, scheduleFor(f), nil)
		mustApply(t, early, BlockPlan{Slot: 1})
		bases := []base{{"rich", rc, rplan}, {"early", early, BlockPlan{Slot: 2, Attestations: []AttPlan{{Slot: 1, Index: 0}}}}}
		// a bellatrix chain before the merge: payload variants do not apply
		for _, b := range bases {
			honest, err := b.c.Produce(b.plan)
			if err != nil {
				t.Fatalf("%s: %v", b.name, err)
			}
			if err := b.c.Copy().Apply(honest); err != nil {
				t.Fatalf("%s: honest block rejected: %v", b.name, err)
			}
			pre, err := b.c.PreState(honest.Slot)
			if err != nil {
				t.Fatal(err)
			}
			for _, v := range Variants() {
				env, err := v.Make(pre, b.c.Deposits, honest)
				if err == ErrNotApplicable {
					continue
				}
				if err != nil {
					t.Errorf("%s/%s: make: %v", b.name, v.Name, err)
					continue
				}
				if env.BlockRoot == honest.BlockRoot && env.Signature == honest.Signature {
					t.Errorf("%s/%s: variant equals the honest block", b.name, v.Name)
				}
				cc := b.c.Copy()
				err = cc.Apply(env)
				wantValid := v.StillValid != nil && v.StillValid(f)
				switch {
				case err == nil && !wantValid:
					t.Errorf("ZRNT ACCEPTED INVALID BLOCK: fork %s base %s variant %s (%s)", f, b.name, v.Name, v.Condition)
					note(v.Name, f, "ACCEPTED")
				case err != nil && wantValid:
					t.Errorf("%s/%s: control variant rejected: %v", b.name, v.Name, err)
				default:
					if err != nil {
						note(v.Name, f, err.Error())
					} else {
						note(v.Name, f, "valid (control)")
					}
				}
				// the honest block must still be acceptable afterwards (no residue in shared caches)
			}
			if err := b.c.Copy().Apply(honest); err != nil {
				t.Fatalf("%s: honest block rejected after the variants: %v", b.name, err)
			}
		}
	})
	for _, v := range Variants() {
		if len(covered[v.Name]) == 0 {
			t.Errorf("variant %s was never applicable", v.Name)
		}
		for _, f := range AllForks {
			if msg, ok := covered[v.Name][f]; ok {
				t.Logf("%-34s %-9s %s", v.Name, f, msg)
			}
		}
	}
}
