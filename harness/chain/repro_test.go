package chain

import (
	"context"
	"math/rand"
	"os"
	"testing"

	"github.com/protolambda/zrnt/eth2/beacon/common"
)

// The tests in this file are about zrnt defects the harness ran into or can reach.
// They are diagnostics (plain Go re-computations of a consensus-spec formula), NOT
// verdicts - the verdict belongs to the TLA+ checks. They are skipped unless
// VERIF_REPRO=1.
//
//   - TestReproEjectionExitQueue, TestReproStaleSyncCommitteeCache and
//     TestReproHonestSyncAggregateRejected are REGRESSION tests of defects that were repaired
//     in /repo (fix: commits 7021aea, ffca285): they pass on the repaired tree, fail if the
//     defect returns, and guard against vacuity (they insist on having reached the
//     situation in which the old code went wrong).
//   - TestReproCommitteeCountPanic reproduces an open oddity and still fails.
func reproEnabled(t *testing.T) {
	if os.Getenv("VERIF_REPRO") == "" {
		t.Skip("set VERIF_REPRO=1 to run the reproductions")
	}
}

// specEjectionExitEpochs replays process_registry_updates' ejections (in index order,
// each through initiate_validator_exit) on the registry `vals` for the epoch being
// processed and returns the exit epoch the consensus spec assigns to each ejected validator.
func specEjectionExitEpochs(spec *common.Spec, vals []common.FlatValidator, current common.Epoch) map[common.ValidatorIndex]common.Epoch {
	active := uint64(0)
	for i := range vals {
		if vals[i].IsActive(current) {
			active++
		}
	}
	churnLimit := spec.GetChurnLimit(active)
	out := map[common.ValidatorIndex]common.Epoch{}
	work := append([]common.FlatValidator(nil), vals...)
	for i := range work {
		v := &work[i]
		if v.IsActive(current) && v.EffectiveBalance <= spec.EJECTION_BALANCE && v.ExitEpoch == FarFuture {
			queue := spec.ComputeActivationExitEpoch(current)
			for j := range work {
				if e := work[j].ExitEpoch; e != FarFuture && e > queue {
					queue = e
				}
			}
			churn := uint64(0)
			for j := range work {
				if work[j].ExitEpoch == queue {
					churn++
				}
			}
			if churn >= churnLimit {
				queue++
			}
			v.ExitEpoch = queue
			out[common.ValidatorIndex(i)] = queue
		}
	}
	return out
}

// buggyEjectionExitEpochs is the pre-fix behaviour of phase0.ComputeRegistryProcessData +
// the ejection loop: the churn counter is not reset when a later exit epoch is found.
// Only used to recognise histories in which the old code would have deviated.
func buggyEjectionExitEpochs(spec *common.Spec, vals []common.FlatValidator, current common.Epoch) map[common.ValidatorIndex]common.Epoch {
	active := uint64(0)
	for i := range vals {
		if vals[i].IsActive(current) {
			active++
		}
	}
	limit := spec.GetChurnLimit(active)
	end := spec.ComputeActivationExitEpoch(current)
	churn := uint64(0)
	for i := range vals {
		e := vals[i].ExitEpoch
		if e == FarFuture {
			continue
		}
		if e > end {
			end = e
		}
		if e == end {
			churn++
		}
	}
	if churn >= limit {
		end++
		churn = 0
	}
	out := map[common.ValidatorIndex]common.Epoch{}
	for i := range vals {
		v := &vals[i]
		if v.IsActive(current) && v.EffectiveBalance <= spec.EJECTION_BALANCE && v.ExitEpoch == FarFuture {
			out[common.ValidatorIndex(i)] = end
			churn++
			if churn >= limit {
				churn = 0
				end++
			}
		}
	}
	return out
}

// TestReproEjectionExitQueue (regression, repaired by "fix: registry updates count
// exit-queue churn per exit epoch"): DESIGN §10 item 11. phase0.ComputeRegistryProcessData keeps
// counting churn across different exit epochs (the counter is not reset when a later
// exit epoch is found), so an ejection that happens while the exit queue spans several
// epochs is pushed one epoch further than the spec's initiate_validator_exit does.
func TestReproEjectionExitQueue(t *testing.T) {
	reproEnabled(t)
	type job struct {
		name string
		run  func() (*Chain, []StepResult, error)
	}
	var jobs []job
	for _, ns := range CornerScenarios() {
		ns := ns
		if ns.Preset == PresetS2 {
			jobs = append(jobs, job{"corner/" + ns.Name, ns.Run})
		}
	}
	for seed := int64(1); seed <= 6; seed++ {
		seed := seed
		jobs = append(jobs, job{"random-S2", func() (*Chain, []StepResult, error) {
			spec := NewSpec(PresetS2, Forks(2, 4, 6, 8))
			c, err := NewGenesis(spec, GenesisOpts{Validators: 16})
			if err != nil {
				return nil, nil, err
			}
			res, err := c.RunScenario(RandomScenario(rand.New(rand.NewSource(seed)), spec, ScenarioOpts{Validators: 16}))
			return c, res, err
		}})
	}
	deviations, ejections, sensitive := 0, 0, 0
	for _, j := range jobs {
		c, res, err := j.run()
		if err != nil {
			t.Fatalf("%s: %v", j.name, err)
		}
		spec := c.Spec
		for _, r := range res {
			if r.Pre == nil || r.Post == nil || r.Pre.Epoch() == r.Post.Epoch() {
				continue
			}
			// walk epoch by epoch from Pre to Post's epoch start
			cur := r.Pre.Copy(false).dryRun()
			for cur.Epoch() < r.Post.Epoch() {
				e := cur.Epoch()
				next := must(spec.EpochStartSlot(e + 1))
				if err := cur.Advance(next - 1); err != nil {
					t.Fatal(err)
				}
				before := cur.Validators()
				want := specEjectionExitEpochs(spec, before, e)
				for vi, b := range buggyEjectionExitEpochs(spec, before, e) {
					if want[vi] != b {
						sensitive++
					}
				}
				if err := cur.Advance(next); err != nil {
					t.Fatal(err)
				}
				after := cur.Validators()
				for vi, w := range want {
					ejections++
					if got := after[vi].ExitEpoch; got != w {
						deviations++
						t.Logf("%s: epoch %d (%s): ejected validator %d gets exit epoch %d from zrnt, %d per spec; exit epochs before: %v",
							j.name, e, cur.Fork(), vi, got, w, exitEpochs(before))
					}
				}
			}
		}
	}
	t.Logf("%d ejections observed, %d of them in a situation where the pre-fix code deviated, %d with an exit epoch different from the spec", ejections, sensitive, deviations)
	if deviations > 0 {
		t.Errorf("zrnt deviates from process_registry_updates/initiate_validator_exit in %d ejections (defect §10.11 is back?)", deviations)
	}
	if sensitive == 0 {
		t.Errorf("vacuous: no ejection happened while the exit queue spanned several epochs with a partly filled last epoch")
	}
}

func exitEpochs(vals []common.FlatValidator) []int64 {
	out := make([]int64, len(vals))
	for i := range vals {
		if vals[i].ExitEpoch == FarFuture {
			out[i] = -1
		} else {
			out[i] = int64(vals[i].ExitEpoch)
		}
	}
	return out
}

// TestReproCommitteeCountPanic: EpochsContext.GetCommitteeCountPerSlot indexes the nil
// result of getEpochComms before looking at the error, so an epoch outside
// previous/current/next panics instead of returning the error.
func TestReproCommitteeCountPanic(t *testing.T) {
	reproEnabled(t)
	c := newChain(t, PresetS1, Phase0Only, nil)
	defer func() {
		if r := recover(); r != nil {
			t.Errorf("GetCommitteeCountPerSlot(out of range epoch) panicked: %v", r)
		}
	}()
	if _, err := c.Epc.GetCommitteeCountPerSlot(7); err == nil {
		t.Error("no error for an out-of-range epoch")
	}
}

// stateSyncIndices reads state.current_sync_committee and maps the pubkeys to validator indices.
func stateSyncIndices(s *StateCtx) []common.ValidatorIndex {
	ss, ok := s.State.BeaconState.(common.SyncCommitteeBeaconState)
	if !ok {
		return nil
	}
	pubs := must(must(must(ss.CurrentSyncCommittee()).Pubkeys()).Flatten())
	out := make([]common.ValidatorIndex, len(pubs))
	for i, p := range pubs {
		idx, ok := s.Epc.ValidatorPubkeyCache.ValidatorIndex(p)
		if !ok {
			panic("unknown sync committee pubkey")
		}
		out[i] = idx
	}
	return out
}

// TestReproStaleSyncCommitteeCache (regression; found by builder-beacon, repaired by "fix:
// epochs context rotates its sync committees when the state is wrapped for fork
// upgrades"). Before the fix: ProcessSlots hands the
// *beacon.StandardUpgradeableBeaconState wrapper to EpochsContext.RotateEpochs, whose
// `state.(SyncCommitteeBeaconState)` assertion fails on the wrapper (it only promotes the
// methods of common.BeaconState). The epochs context therefore never rotates its sync
// committees after the altair upgrade: from the second period on ProcessSyncAggregate
// verifies signatures against, and rewards/penalises, the committee of the fork epoch.
func TestReproStaleSyncCommitteeCache(t *testing.T) {
	reproEnabled(t)
	spec := NewSpec(PresetS1, Forks(1, FarFuture, FarFuture, FarFuture))
	c, err := NewGenesis(spec, GenesisOpts{Validators: 16})
	if err != nil {
		t.Fatal(err)
	}
	// plain zrnt: ProcessSlots over several sync committee periods (period = 2 epochs = 8 slots)
	stale, changes := 0, 0
	var last []common.ValidatorIndex
	for slot := common.Slot(4); slot <= 40; slot += 4 {
		if err := common.ProcessSlots(context.Background(), spec, c.Epc, c.State, slot); err != nil {
			t.Fatal(err)
		}
		inState := stateSyncIndices(c.StateCtx)
		if last != nil && !sameIndices(last, inState) {
			changes++
		}
		last = inState
		inEpc := c.Epc.CurrentSyncCommittee.Indices
		same := len(inState) == len(inEpc)
		for i := range inState {
			same = same && inState[i] == inEpc[i]
		}
		if !same {
			stale++
			t.Logf("epoch %d: state.current_sync_committee = %v, epc.CurrentSyncCommittee = %v", slot/4, inState, inEpc)
		}
	}
	if stale > 0 {
		t.Errorf("epochs context sync committee differs from the state's in %d of 10 epochs (stale cache defect is back?)", stale)
	}
	if changes < 3 {
		t.Errorf("vacuous: the state's sync committee changed only %d times", changes)
	}
}

// TestReproHonestSyncAggregateRejected (regression): consequence of the stale cache on
// block validity. Before the fix, with the compensation switched off, a block whose sync aggregate is signed
// by state.current_sync_committee (= valid per the consensus spec) is rejected by zrnt
// once the state's committee has rotated away from the one cached at the fork.
func TestReproHonestSyncAggregateRejected(t *testing.T) {
	reproEnabled(t)
	c := newChain(t, PresetS1, Forks(1, FarFuture, FarFuture, FarFuture), nil)
	c.CompensateSyncCache = false // zrnt unmodified (also the default)
	changes := 0
	var last []common.ValidatorIndex
	defer func() {
		if !t.Failed() && changes < 3 {
			t.Errorf("vacuous: the state's sync committee changed only %d times", changes)
		}
	}()
	for s := common.Slot(1); s <= 48; s++ {
		if cur := c.SyncCommittee(); cur != nil {
			if last != nil && !sameIndices(last, cur) {
				changes++
			}
			last = cur
		}
		if _, err := c.ProduceAndApply(BlockPlan{Slot: s}); err != nil {
			t.Logf("state committee %v, zrnt's cached committee %v", must(c.PreState(s)).SyncCommittee(), must(c.PreState(s)).SyncCommitteeCached())
			t.Fatalf("slot %d (epoch %d): zrnt rejects a block with a spec-valid sync aggregate: %v", s, s/4, err)
		}
	}
}
