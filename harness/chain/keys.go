package chain

import (
	"crypto/sha256"
	"encoding/binary"
	"fmt"
	"sync"

	blsu "github.com/protolambda/bls12-381-util"
	"github.com/protolambda/zrnt/eth2/beacon/common"
)

// KeyID names a secret key owned by the harness. The secret scalar of key k is k+1.
//
//   - validator i signs with KeyID(i)                         (sk = i+1)
//   - the BLS withdrawal key of validator i is WithdrawalKey(i) (sk = 2^20 + i + 1)
//
// Depositors beyond the registry simply use the next KeyIDs: the validator created by
// a deposit signed with KeyID(k) is expected to land at index k when deposits are made in
// key order, but nothing in the harness relies on that: lookups go through pubkeys.
type KeyID uint64

// WithdrawalKeyBase is the offset of the withdrawal key range.
const WithdrawalKeyBase KeyID = 1 << 20

// WithdrawalKey is the KeyID of the BLS withdrawal key that belongs to validator key k.
func WithdrawalKey(k KeyID) KeyID { return WithdrawalKeyBase + k }

// IsWithdrawalKey tells whether k lies in the withdrawal key range.
func (k KeyID) IsWithdrawalKey() bool { return k >= WithdrawalKeyBase }

// SigInfo describes how the harness produced one signature: it is the "abstract
// signature" of DESIGN §1 (signers, message root, domain type, fork version, gvr).
type SigInfo struct {
	Signers     []KeyID     // in signing order; duplicates possible (sync committees)
	Message     common.Root // object root that was signed (before mixing in the domain)
	DomainType  common.BLSDomainType
	ForkVersion common.Version
	GVR         common.Root // genesis validators root used for the domain
	SigningRoot common.Root
}

type keyEntry struct {
	sk  blsu.SecretKey
	pk  *blsu.Pubkey
	pkc common.BLSPubkey
}

// Keys is the deterministic key ring. It is safe for concurrent use and is shared
// (by pointer) between a Chain and all its copies. All derived data is cached
// process-wide, so creating many Keys values is cheap.
type Keys struct {
	mu  sync.Mutex
	reg map[common.BLSSignature]*SigInfo
}

var (
	keyCacheMu sync.RWMutex
	keyCache   = map[KeyID]*keyEntry{}
	pubIndex   = map[common.BLSPubkey]KeyID{}
)

// NewKeys returns an empty key ring (keys are derived lazily).
func NewKeys() *Keys { return &Keys{reg: map[common.BLSSignature]*SigInfo{}} }

func entry(k KeyID) *keyEntry {
	keyCacheMu.RLock()
	e := keyCache[k]
	keyCacheMu.RUnlock()
	if e != nil {
		return e
	}
	var raw [32]byte
	binary.BigEndian.PutUint64(raw[24:], uint64(k)+1)
	e = &keyEntry{}
	if err := e.sk.Deserialize(&raw); err != nil {
		panic(fmt.Sprintf("key %d: %v", k, err))
	}
	pk, err := blsu.SkToPk(&e.sk)
	if err != nil {
		panic(fmt.Sprintf("key %d: %v", k, err))
	}
	e.pk = pk
	e.pkc = common.BLSPubkey(pk.Serialize())
	keyCacheMu.Lock()
	if prev := keyCache[k]; prev != nil {
		e = prev
	} else {
		keyCache[k] = e
		pubIndex[e.pkc] = k
	}
	keyCacheMu.Unlock()
	return e
}

// SecretBytes returns the 32-byte big-endian secret scalar of key k (= k+1).
func (ks *Keys) SecretBytes(k KeyID) [32]byte { return entry(k).sk.Serialize() }

// Secret returns the secret key object of k.
func (ks *Keys) Secret(k KeyID) *blsu.SecretKey { return &entry(k).sk }

// Pubkey returns the compressed public key of k.
func (ks *Keys) Pubkey(k KeyID) common.BLSPubkey { return entry(k).pkc }

// PubkeyPoint returns the decompressed public key of k.
func (ks *Keys) PubkeyPoint(k KeyID) *blsu.Pubkey { return entry(k).pk }

// KeyOf finds the KeyID of a compressed pubkey, if the harness has derived it before.
func (ks *Keys) KeyOf(pub common.BLSPubkey) (KeyID, bool) {
	keyCacheMu.RLock()
	defer keyCacheMu.RUnlock()
	k, ok := pubIndex[pub]
	return k, ok
}

// BLSWithdrawalCredentials returns 0x00 ‖ sha256(pubkey(WithdrawalKey(k)))[1:].
func (ks *Keys) BLSWithdrawalCredentials(k KeyID) common.Root {
	pub := ks.Pubkey(WithdrawalKey(k))
	h := sha256.Sum256(pub[:])
	h[0] = common.BLS_WITHDRAWAL_PREFIX
	return h
}

// Eth1Address returns the deterministic execution address used for validator key k:
// 0xEE ‖ 0..0 ‖ uint16(k+1) (never the zero address).
func Eth1Address(k KeyID) (a common.Eth1Address) {
	a[0] = 0xee
	binary.BigEndian.PutUint32(a[16:], uint32(k)+1)
	return a
}

// Eth1WithdrawalCredentials returns 0x01 ‖ 11 zero bytes ‖ address.
func Eth1WithdrawalCredentials(addr common.Eth1Address) (out common.Root) {
	out[0] = common.ETH1_ADDRESS_WITHDRAWAL_PREFIX
	copy(out[12:], addr[:])
	return out
}

// Domain is a fully explicit signature domain. The harness never derives a domain
// implicitly when signing: callers say which type, version and gvr go in.
type Domain struct {
	Type    common.BLSDomainType
	Version common.Version
	GVR     common.Root
}

// Compute returns the 32-byte domain.
func (d Domain) Compute() common.BLSDomain { return common.ComputeDomain(d.Type, d.Version, d.GVR) }

// Sign signs object root msg under domain d with the keys in signers (aggregate
// signature when several). An empty signer list yields the point at infinity.
// The signature is recorded in the registry (see Lookup).
func (ks *Keys) Sign(signers []KeyID, msg common.Root, d Domain) common.BLSSignature {
	signingRoot := common.ComputeSigningRoot(msg, d.Compute())
	sig := rawAggregateSign(signers, signingRoot)
	info := &SigInfo{
		Signers:     append([]KeyID(nil), signers...),
		Message:     msg,
		DomainType:  d.Type,
		ForkVersion: d.Version,
		GVR:         d.GVR,
		SigningRoot: signingRoot,
	}
	ks.mu.Lock()
	ks.reg[sig] = info
	ks.mu.Unlock()
	return sig
}

// Sign1 is Sign with a single signer.
func (ks *Keys) Sign1(signer KeyID, msg common.Root, d Domain) common.BLSSignature {
	return ks.Sign([]KeyID{signer}, msg, d)
}

// Lookup returns how a signature was made, if the harness made it.
func (ks *Keys) Lookup(sig common.BLSSignature) (*SigInfo, bool) {
	ks.mu.Lock()
	defer ks.mu.Unlock()
	i, ok := ks.reg[sig]
	return i, ok
}

// InfinitySignature is the compressed G2 point at infinity (valid aggregate of nobody).
var InfinitySignature = func() (s common.BLSSignature) { s[0] = 0xc0; return }()

// rawAggregateSign returns the aggregate signature of all signers over the same 32-byte
// message. Because signatures are linear in the secret, the aggregate equals one
// signature with the sum of the secrets; the secrets are small integers so the sum is
// computed in uint64 (duplicates count twice, as FastAggregateVerify expects).
func rawAggregateSign(signers []KeyID, signingRoot common.Root) common.BLSSignature {
	if len(signers) == 0 {
		return InfinitySignature
	}
	var sum uint64
	for _, k := range signers {
		sum += uint64(k) + 1
	}
	var raw [32]byte
	binary.BigEndian.PutUint64(raw[24:], sum)
	var sk blsu.SecretKey
	if err := sk.Deserialize(&raw); err != nil {
		panic(err)
	}
	return common.BLSSignature(blsu.Sign(&sk, signingRoot[:]).Serialize())
}
