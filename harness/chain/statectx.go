package chain

import (
	"context"
	"crypto/sha256"
	"encoding/binary"
	"fmt"

	"github.com/protolambda/zrnt/eth2/beacon"
	"github.com/protolambda/zrnt/eth2/beacon/altair"
	"github.com/protolambda/zrnt/eth2/beacon/bellatrix"
	"github.com/protolambda/zrnt/eth2/beacon/capella"
	"github.com/protolambda/zrnt/eth2/beacon/common"
	"github.com/protolambda/zrnt/eth2/beacon/deneb"
	"github.com/protolambda/zrnt/eth2/beacon/phase0"
	"github.com/protolambda/ztyp/tree"
)

// StateCtx bundles a beacon state with its epochs context, the spec and the key ring:
// everything needed to look things up and to sign. A Chain embeds the StateCtx of its
// head; Produce works on advanced copies.
//
// The state is always wrapped in zrnt's fork-upgrading wrapper so that ProcessSlots
// crosses fork epochs.
type StateCtx struct {
	Spec  *common.Spec
	Keys  *Keys
	State *beacon.StandardUpgradeableBeaconState
	Epc   *common.EpochsContext

	// CompensateSyncCache (default FALSE: zrnt runs unmodified; inherited by copies) is a
	// switch that works around a zrnt defect which has since been repaired in /repo
	// ("fix: epochs context rotates its sync committees when the state is wrapped for fork
	// upgrades"): before the fix ProcessSlots passed the StandardUpgradeableBeaconState
	// wrapper to EpochsContext.RotateEpochs, whose `state.(SyncCommitteeBeaconState)`
	// assertion failed on the wrapper, so the epochs context never rotated its sync
	// committees after the altair upgrade. With the flag set, every ProcessSlots/
	// StateTransition the harness runs (Advance, PreState, Slots, Apply) gets the state
	// wrapped in SyncFixState, which re-loads the sync committees of the epochs context
	// from the state at every epoch start - useful only to keep chains going on a tree
	// that has the defect. Sync aggregates are always signed by the STATE's committee, so
	// on a defective tree without the flag honest blocks are rejected from the third sync
	// committee period after altair on (TestReproHonestSyncAggregateRejected).
	CompensateSyncCache bool
}

// SyncFixState wraps the upgrading state so that UpgradeMaybe (called by ProcessSlots
// after every slot) also re-hydrates epc.Current/NextSyncCommittee from the state at
// epoch starts. See StateCtx.CompensateSyncCache.
type SyncFixState struct {
	*beacon.StandardUpgradeableBeaconState
}

// UpgradeMaybe performs the fork upgrades, then the compensation.
func (s SyncFixState) UpgradeMaybe(ctx context.Context, spec *common.Spec, epc *common.EpochsContext) error {
	if err := s.StandardUpgradeableBeaconState.UpgradeMaybe(ctx, spec, epc); err != nil {
		return err
	}
	slot, err := s.Slot()
	if err != nil {
		return err
	}
	if slot%spec.SLOTS_PER_EPOCH != 0 {
		return nil
	}
	if ss, ok := s.BeaconState.(common.SyncCommitteeBeaconState); ok {
		return epc.LoadSyncCommittees(ss)
	}
	return nil
}

var _ common.UpgradeableBeaconState = SyncFixState{}

// TransitionState returns the value to hand to common.ProcessSlots / StateTransition:
// the state itself, or wrapped in SyncFixState when CompensateSyncCache is set.
func (s *StateCtx) TransitionState() common.UpgradeableBeaconState {
	if s.CompensateSyncCache {
		return SyncFixState{s.State}
	}
	return s.State
}

// internalError wraps unexpected errors of state accessors; exported entry points
// convert the panic back into an error with recoverTo.
type internalError struct{ err error }

func must[T any](v T, err error) T {
	if err != nil {
		panic(internalError{err})
	}
	return v
}

func check(err error) {
	if err != nil {
		panic(internalError{err})
	}
}

func recoverTo(err *error) {
	if r := recover(); r != nil {
		if ie, ok := r.(internalError); ok {
			*err = ie.err
			return
		}
		panic(r)
	}
}

// ForkOfState returns the fork of a state by its Go type.
func ForkOfState(s common.BeaconState) Fork {
	if u, ok := s.(*beacon.StandardUpgradeableBeaconState); ok {
		s = u.BeaconState
	}
	switch s.(type) {
	case *phase0.BeaconStateView:
		return Phase0
	case *altair.BeaconStateView:
		return Altair
	case *bellatrix.BeaconStateView:
		return Bellatrix
	case *capella.BeaconStateView:
		return Capella
	case *deneb.BeaconStateView:
		return Deneb
	default:
		panic(fmt.Sprintf("unsupported state type %T", s))
	}
}

// ForkOfBody returns the fork of a block body by its Go type.
func ForkOfBody(b common.SpecObj) Fork {
	switch b.(type) {
	case *phase0.BeaconBlockBody:
		return Phase0
	case *altair.BeaconBlockBody:
		return Altair
	case *bellatrix.BeaconBlockBody:
		return Bellatrix
	case *capella.BeaconBlockBody:
		return Capella
	case *deneb.BeaconBlockBody:
		return Deneb
	default:
		panic(fmt.Sprintf("unsupported body type %T", b))
	}
}

// Copy returns an independent copy: the state tree is copied (cheap, persistent data
// structure) and the epochs context is cloned. With freshPubkeys the copy also gets its
// own pubkey cache, rebuilt from the registry. That is needed whenever the copy may
// process deposits the original will not (zrnt shares the cache between clones and its
// "cache fork" logic is fragile, see README).
func (s *StateCtx) Copy(freshPubkeys bool) *StateCtx {
	inner := must(s.State.BeaconState.CopyState())
	epc := s.Epc.Clone()
	if freshPubkeys {
		epc.ValidatorPubkeyCache = must(common.NewPubkeyCache(must(inner.Validators())))
		// sync committee caches hold *CachedPubkey pointers into the old cache: harmless
		// (immutable data), they are kept.
	}
	return &StateCtx{
		Spec:                s.Spec,
		Keys:                s.Keys,
		State:               &beacon.StandardUpgradeableBeaconState{BeaconState: inner},
		Epc:                 epc,
		CompensateSyncCache: s.CompensateSyncCache,
	}
}

// withSpec returns a shallow view of s that uses another *common.Spec (same constants,
// e.g. another execution engine). The state is shared, the epc cloned.
func (s *StateCtx) withSpec(spec *common.Spec) *StateCtx {
	epc := s.Epc.Clone()
	epc.Spec = spec
	return &StateCtx{Spec: spec, Keys: s.Keys, State: s.State, Epc: epc, CompensateSyncCache: s.CompensateSyncCache}
}

// Slot returns the state's slot.
func (s *StateCtx) Slot() common.Slot { return must(s.State.Slot()) }

// Epoch returns the state's current epoch.
func (s *StateCtx) Epoch() common.Epoch { return s.Spec.SlotToEpoch(s.Slot()) }

// Fork returns the fork of the state (by type).
func (s *StateCtx) Fork() Fork { return ForkOfState(s.State) }

// ForkData returns state.fork.
func (s *StateCtx) ForkData() common.Fork { return must(s.State.Fork()) }

// GVR returns state.genesis_validators_root.
func (s *StateCtx) GVR() common.Root { return must(s.State.GenesisValidatorsRoot()) }

// GenesisTime returns state.genesis_time.
func (s *StateCtx) GenesisTime() common.Timestamp { return must(s.State.GenesisTime()) }

// StateRoot returns hash_tree_root(state).
func (s *StateCtx) StateRoot() common.Root { return s.State.HashTreeRoot(tree.GetHashFn()) }

// ValidatorCount returns len(state.validators).
func (s *StateCtx) ValidatorCount() uint64 {
	return must(must(s.State.Validators()).ValidatorCount())
}

// Validators returns the flattened registry (without pubkeys/credentials).
func (s *StateCtx) Validators() []common.FlatValidator {
	return must(common.FlattenValidators(must(s.State.Validators())))
}

// Validator returns the flattened validator i.
func (s *StateCtx) Validator(i common.ValidatorIndex) common.FlatValidator {
	var f common.FlatValidator
	check(must(must(s.State.Validators()).Validator(i)).Flatten(&f))
	return f
}

// Credentials returns the withdrawal credentials of validator i.
func (s *StateCtx) Credentials(i common.ValidatorIndex) common.Root {
	return must(must(must(s.State.Validators()).Validator(i)).WithdrawalCredentials())
}

// PubkeyOf returns the pubkey of validator i as stored in the state.
func (s *StateCtx) PubkeyOf(i common.ValidatorIndex) common.BLSPubkey {
	return must(must(must(s.State.Validators()).Validator(i)).Pubkey())
}

// KeyOf returns the harness key of validator i (by its pubkey in the state).
func (s *StateCtx) KeyOf(i common.ValidatorIndex) KeyID {
	k, ok := s.Keys.KeyOf(s.PubkeyOf(i))
	if !ok {
		panic(internalError{fmt.Errorf("validator %d has a pubkey unknown to the harness", i)})
	}
	return k
}

// KeysOf maps validator indices to harness keys.
func (s *StateCtx) KeysOf(indices []common.ValidatorIndex) []KeyID {
	out := make([]KeyID, len(indices))
	for i, v := range indices {
		out[i] = s.KeyOf(v)
	}
	return out
}

// IndexOfKey finds the validator index whose pubkey belongs to key k.
func (s *StateCtx) IndexOfKey(k KeyID) (common.ValidatorIndex, bool) {
	pub := s.Keys.Pubkey(k)
	n := s.ValidatorCount()
	// fast path: deposits are usually made in key order
	if uint64(k) < n && s.PubkeyOf(common.ValidatorIndex(k)) == pub {
		return common.ValidatorIndex(k), true
	}
	for i := uint64(0); i < n; i++ {
		if s.PubkeyOf(common.ValidatorIndex(i)) == pub {
			return common.ValidatorIndex(i), true
		}
	}
	return 0, false
}

// Balance returns state.balances[i].
func (s *StateCtx) Balance(i common.ValidatorIndex) common.Gwei {
	return must(must(s.State.Balances()).GetBalance(i))
}

// Balances returns all balances.
func (s *StateCtx) Balances() []common.Gwei { return must(must(s.State.Balances()).AllBalances()) }

// ActiveIndices returns the validators active in the state's current epoch.
func (s *StateCtx) ActiveIndices() []common.ValidatorIndex {
	return append([]common.ValidatorIndex(nil), s.Epc.CurrentEpoch.ActiveIndices...)
}

// Justified returns (previous_justified, current_justified, finalized).
func (s *StateCtx) Justified() (prev, cur, fin common.Checkpoint) {
	return must(s.State.PreviousJustifiedCheckpoint()), must(s.State.CurrentJustifiedCheckpoint()), must(s.State.FinalizedCheckpoint())
}

// Eth1 returns (state.eth1_data, state.eth1_deposit_index).
func (s *StateCtx) Eth1() (common.Eth1Data, common.DepositIndex) {
	return must(s.State.Eth1Data()), must(s.State.Eth1DepositIndex())
}

// LatestHeader returns a copy of state.latest_block_header.
func (s *StateCtx) LatestHeader() *common.BeaconBlockHeader { return must(s.State.LatestBlockHeader()) }

// HeadRoot returns the root of the latest block: hash_tree_root(latest_block_header)
// with an empty state_root filled in by the current state root (what process_slot will
// cache as the block root of the current slot).
func (s *StateCtx) HeadRoot() common.Root {
	h := s.LatestHeader()
	if h.StateRoot == (common.Root{}) {
		h.StateRoot = s.StateRoot()
	}
	return h.HashTreeRoot(tree.GetHashFn())
}

// UnknownRoot is the placeholder root used where no real block root is available.
func UnknownRoot(tag string, n uint64) common.Root {
	var b [8]byte
	binary.LittleEndian.PutUint64(b[:], n)
	return sha256.Sum256(append([]byte("unknown:"+tag+":"), b[:]...))
}

// BlockRootAt returns get_block_root_at_slot for slot < state.slot (within
// SLOTS_PER_HISTORICAL_ROOT), HeadRoot() for slot == state.slot; ok=false otherwise.
func (s *StateCtx) BlockRootAt(slot common.Slot) (common.Root, bool) {
	cur := s.Slot()
	switch {
	case slot == cur:
		return s.HeadRoot(), true
	case slot < cur && cur <= slot+s.Spec.SLOTS_PER_HISTORICAL_ROOT:
		return must(common.GetBlockRootAtSlot(s.Spec, s.State, slot)), true
	default:
		return common.Root{}, false
	}
}

// Proposer returns the expected proposer of a slot of the state's current epoch.
func (s *StateCtx) Proposer(slot common.Slot) (common.ValidatorIndex, error) {
	return s.Epc.GetBeaconProposer(slot)
}

// CommitteeCount returns the committees per slot in epoch (previous, current or next).
func (s *StateCtx) CommitteeCount(epoch common.Epoch) (n uint64, err error) {
	switch epoch {
	case s.Epc.PreviousEpoch.Epoch, s.Epc.CurrentEpoch.Epoch, s.Epc.NextEpoch.Epoch:
		return s.Epc.GetCommitteeCountPerSlot(epoch)
	}
	return 0, fmt.Errorf("committee count: epoch %d not in the epochs context (current %d)", epoch, s.Epc.CurrentEpoch.Epoch)
}

// Committee returns the beacon committee (slot, index); the slot must lie in the
// previous, current or next epoch of the state.
func (s *StateCtx) Committee(slot common.Slot, index common.CommitteeIndex) ([]common.ValidatorIndex, error) {
	c, err := s.Epc.GetBeaconCommittee(slot, index)
	if err != nil {
		return nil, err
	}
	return append([]common.ValidatorIndex(nil), c...), nil
}

// SyncCommittee returns the validator indices of state.current_sync_committee, position
// by position (nil before altair). It is read from the STATE, not from the epochs
// context (whose copy zrnt lets go stale, see CompensateSyncCache).
func (s *StateCtx) SyncCommittee() []common.ValidatorIndex {
	ss, ok := s.State.BeaconState.(common.SyncCommitteeBeaconState)
	if !ok {
		return nil
	}
	pubs := must(must(must(ss.CurrentSyncCommittee()).Pubkeys()).Flatten())
	out := make([]common.ValidatorIndex, len(pubs))
	for i, p := range pubs {
		idx, ok := s.Epc.ValidatorPubkeyCache.ValidatorIndex(p)
		if !ok {
			panic(internalError{fmt.Errorf("sync committee pubkey %s not in the pubkey cache", p)})
		}
		out[i] = idx
	}
	return out
}

// SyncCommitteeCached returns the indices zrnt's epochs context holds for the current
// sync committee (what ProcessSyncAggregate really uses).
func (s *StateCtx) SyncCommitteeCached() []common.ValidatorIndex {
	if s.Epc.CurrentSyncCommittee == nil {
		return nil
	}
	return append([]common.ValidatorIndex(nil), s.Epc.CurrentSyncCommittee.Indices...)
}

// Domain returns get_domain(state, typ, epoch) in explicit form: the previous fork
// version if epoch < state.fork.epoch, else the current one.
func (s *StateCtx) Domain(typ common.BLSDomainType, epoch common.Epoch) Domain {
	f := s.ForkData()
	v := f.CurrentVersion
	if epoch < f.Epoch {
		v = f.PreviousVersion
	}
	return Domain{Type: typ, Version: v, GVR: s.GVR()}
}

// ForkDigest is compute_fork_digest(state.fork.current_version, gvr).
func (s *StateCtx) ForkDigest() common.ForkDigest {
	return common.ComputeForkDigest(s.ForkData().CurrentVersion, s.GVR())
}

// RandaoMix returns get_randao_mix(state, epoch).
func (s *StateCtx) RandaoMix(epoch common.Epoch) common.Root {
	return must(must(s.State.RandaoMixes()).GetRandomMix(epoch))
}

// Runner executes the two zrnt entry points. Consumers may install their own
// (special context, engine, instrumentation) in Chain.Runner.
type Runner interface {
	ProcessSlots(ctx context.Context, spec *common.Spec, epc *common.EpochsContext, state common.UpgradeableBeaconState, slot common.Slot) error
	StateTransition(ctx context.Context, spec *common.Spec, epc *common.EpochsContext, state common.UpgradeableBeaconState, env *common.BeaconBlockEnvelope, validate bool) error
}

// ZrntRunner calls common.ProcessSlots / common.StateTransition.
type ZrntRunner struct{}

func (ZrntRunner) ProcessSlots(ctx context.Context, spec *common.Spec, epc *common.EpochsContext, state common.UpgradeableBeaconState, slot common.Slot) error {
	return common.ProcessSlots(ctx, spec, epc, state, slot)
}

func (ZrntRunner) StateTransition(ctx context.Context, spec *common.Spec, epc *common.EpochsContext, state common.UpgradeableBeaconState, env *common.BeaconBlockEnvelope, validate bool) error {
	return common.StateTransition(ctx, spec, epc, state, env, validate)
}

// Advance runs common.ProcessSlots up to slot `to` (no-op if already there).
func (s *StateCtx) Advance(to common.Slot) (err error) {
	defer recoverTo(&err)
	cur := s.Slot()
	if to == cur {
		return nil
	}
	if to < cur {
		return fmt.Errorf("cannot advance state at slot %d back to %d", cur, to)
	}
	return common.ProcessSlots(context.Background(), s.Spec, s.Epc, s.TransitionState(), to)
}
