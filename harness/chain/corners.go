package chain

import (
	"github.com/protolambda/zrnt/eth2/beacon/common"
)

// NamedScenario is a self-contained scenario: preset, fork schedule, genesis options
// and the steps. All corner scenarios are deterministic.
type NamedScenario struct {
	Name    string
	About   string
	Preset  string
	Forks   ForkSchedule
	Genesis GenesisOpts
	Steps   []StepPlan
}

// Build creates the spec and the genesis chain of the scenario.
func (ns *NamedScenario) Build() (*Chain, error) {
	spec := NewSpec(ns.Preset, ns.Forks)
	g := ns.Genesis
	if g.Validators == 0 {
		g.Validators = DefaultValidatorCount(ns.Preset)
	}
	return NewGenesis(spec, g)
}

// Run builds the chain and runs all steps.
func (ns *NamedScenario) Run() (*Chain, []StepResult, error) {
	c, err := ns.Build()
	if err != nil {
		return nil, nil, err
	}
	res, err := c.RunScenario(ns.Steps)
	return c, res, err
}

// stepsRange returns one honest step per slot in [from, to], edited by mod.
func stepsRange(from, to int, mod func(slot int, st *StepPlan)) []StepPlan {
	var out []StepPlan
	for s := from; s <= to; s++ {
		st := StepPlan{Slot: common.Slot(s), Seed: int64(1000 + s)}
		if mod != nil {
			mod(s, &st)
		}
		out = append(out, st)
	}
	return out
}

func vis(xs ...int) []common.ValidatorIndex {
	out := make([]common.ValidatorIndex, len(xs))
	for i, x := range xs {
		out[i] = common.ValidatorIndex(x)
	}
	return out
}

func seq(from, to int) []common.ValidatorIndex {
	var out []common.ValidatorIndex
	for i := from; i < to; i++ {
		out = append(out, common.ValidatorIndex(i))
	}
	return out
}

// CornerScenarios is the hand-written list of corner histories. Slot numbers assume
// the scaled presets' 4 slots per epoch (2 for S4).
func CornerScenarios() []NamedScenario {
	var out []NamedScenario
	add := func(ns NamedScenario) { out = append(out, ns) }

	add(NamedScenario{
		Name:   "empty-epochs",
		About:  "one block every 7 slots: whole epochs without blocks, every fork boundary crossed by ProcessSlots alone, explicit Slots steps",
		Preset: PresetS1, Forks: Forks(1, 2, 3, 4),
		Steps: stepsRange(1, 40, func(s int, st *StepPlan) {
			st.Skip = s%7 != 0
			st.AdvanceOnly = s%4 == 0 // advance exactly to epoch starts (= fork slots)
		}),
	})
	add(NamedScenario{
		Name:   "fork-boundary-blocks",
		About:  "blocks exactly in the last slot before and the first slot of every fork epoch, two forks in one epoch, full participation",
		Preset: PresetS1, Forks: Forks(1, 3, 3, 5),
		Steps: stepsRange(1, 28, nil),
	})
	add(NamedScenario{
		Name:   "fork-boundary-gaps",
		About:  "the first two slots of every fork epoch and the last slot before it are empty",
		Preset: PresetS1, Forks: Forks(1, 2, 4, 5),
		Steps: stepsRange(1, 28, func(s int, st *StepPlan) { st.Skip = s%4 == 3 || s%4 == 0 || s%4 == 1 && s > 1 }),
	})
	add(NamedScenario{
		Name:   "late-inclusion",
		About:  "attestations are held back for most of an epoch and included at the far edge of the window (delay = SLOTS_PER_EPOCH before deneb, up to 2 epochs - 1 from deneb)",
		Preset: PresetS1, Forks: Forks(2, 4, 6, 8),
		Steps: stepsRange(1, 48, func(s int, st *StepPlan) {
			st.HoldAttestations = s%4 >= 2 // only the first two slots of an epoch include attestations
			if (s/4)%2 == 1 {
				st.NewestFirst = true
			}
		}),
	})
	add(NamedScenario{
		Name:   "exact-two-thirds",
		About:  "11 of 16 attest (68.75% >= 2/3: justification) alternating with 10 of 16 (62.5%: none), per epoch",
		Preset: PresetS1, Forks: Forks(4, 6, 8, 10),
		Steps: stepsRange(1, 52, func(s int, st *StepPlan) {
			if (s/4)%2 == 0 {
				st.Offline = seq(0, 5)
			} else {
				st.Offline = seq(0, 6)
			}
		}),
	})
	add(NamedScenario{
		Name:   "leak-across-forks",
		About:  "half of the validators go offline in phase0 and stay offline through altair, bellatrix and capella (three inactivity quotients, score updates), then return",
		Preset: PresetS1, Forks: Forks(3, 5, 7, 12),
		Steps: stepsRange(1, 56, func(s int, st *StepPlan) {
			if e := s / 4; e >= 1 && e < 10 {
				st.Offline = seq(8, 16)
			}
		}),
	})
	add(NamedScenario{
		Name:   "leak-with-ejections",
		About:  "S2: three voluntary exits (churn 2) leave the exit queue spanning two epochs with the last one half full; offline validators are ejected in that situation and later ones while the queue is busy",
		Preset: PresetS2, Forks: Forks(2, 3, 6, 8),
		Steps: stepsRange(1, 48, func(s int, st *StepPlan) {
			e := s / 4
			if e >= 1 && e < 7 {
				st.Offline = seq(10, 16)
			}
			switch s {
			case 8, 20:
				st.Exits = 2
			case 9, 21:
				st.Exits = 1
			}
		}),
	})
	add(NamedScenario{
		Name:   "mass-slashing",
		About:  "S3 (32 validators): two blocks in one epoch carry the maximum number of slashings with 3 validators per attester slashing; correlation penalty two epochs later under each fork's multiplier",
		Preset: PresetS3, Forks: Forks(2, 4, 8, 10),
		Steps: stepsRange(1, 48, func(s int, st *StepPlan) {
			switch s {
			case 5, 6, 13, 21, 22:
				st.ProposerSlashings, st.AttesterSlashings, st.AttesterSlashingSize = 2, 2, 3
				st.SurroundVote = s%2 == 0
			}
		}),
	})
	add(NamedScenario{
		Name:   "exit-queue",
		About:  "every block of two epochs carries MAX_VOLUNTARY_EXITS exits: the exit queue spans several epochs (churn 2), old message epochs included; deneb part signs with the capella-pinned domain",
		Preset: PresetS3, Forks: Forks(1, 2, 3, 4),
		Steps: stepsRange(1, 48, func(s int, st *StepPlan) {
			if e := s / 4; e == 2 || e == 5 {
				st.Exits = 2
			}
		}),
	})
	add(NamedScenario{
		Name:   "deposit-mix",
		About:  "backlog at genesis: create+top-up of the same new key in one block, bad proof of possession followed by a good one for the same key, partial deposit later topped up to full (becomes eligible), top-up of an exited validator, 0x01 credentials",
		Preset: PresetS1, Forks: Forks(2, 3, 4, 6),
		Genesis: GenesisOpts{PendingDeposits: []DepositSpec{
			{Key: 16}, {Key: 16, Amount: 3000}, // create + top-up in the same block
			{Key: 17, BadSignature: true}, {Key: 17}, // ignored, then created
			{Key: 18, Amount: 20000}, {Key: 19, Eth1Creds: true},
			{Key: 18, Amount: 12000, BadSignature: true}, // completes validator 18 (signature irrelevant)
			{Key: 2, Amount: 1000},
		}},
		Steps: stepsRange(1, 40, func(s int, st *StepPlan) {
			if s == 9 {
				st.Exits = 1
			}
			if s == 12 {
				st.Deposits = []DepositSpec{{Key: 0, Amount: 2000}, {Key: 20, Amount: 40000}}
			}
			st.VoteNewEth1 = true
		}),
	})
	add(NamedScenario{
		Name:   "eth1-majority-edge",
		About:  "exactly half of a voting period votes for the new eth1 data (not adopted, votes reset), next period half+1 (adopted mid-period; the adopting block must already carry deposits)",
		Preset: PresetS1, Forks: Forks(1, 2, 3, 4),
		Steps: stepsRange(1, 32, func(s int, st *StepPlan) {
			if s == 1 {
				st.NewDeposits, st.TopUps = 3, 1
			}
			switch {
			case s >= 8 && s < 16:
				st.VoteNewEth1 = s%2 == 0 // 4 of 8
			case s >= 16 && s < 24:
				st.VoteNewEth1 = s < 21 // first 5 of 8
			}
		}),
	})
	add(NamedScenario{
		Name:   "withdrawal-sweep",
		About:  "capella from genesis, all validators with 0x01 credentials and assorted excess balances: partial withdrawals, sweep bound 5 with 2 per payload, exits then full withdrawals, across the deneb fork",
		Preset: PresetS1, Forks: Forks(0, 0, 0, 5),
		Genesis: GenesisOpts{
			Eth1Creds: []int{0, 1, 2, 3, 4, 5, 6, 7, 8, 9, 10, 11, 12, 13, 14, 15},
			Balances:  []common.Gwei{33000, 32000, 40000, 32001, 32000, 32000, 32000, 64000, 32000, 35000},
		},
		Steps: stepsRange(1, 40, func(s int, st *StepPlan) {
			if s == 8 || s == 9 {
				st.Exits = 2
			}
		}),
	})
	add(NamedScenario{
		Name:   "bls-changes-late",
		About:  "BLS credentials until deneb, then changes for everybody (also for exited and slashed validators) followed by full and partial withdrawals",
		Preset: PresetS1, Forks: Forks(1, 2, 3, 6),
		Steps: stepsRange(1, 48, func(s int, st *StepPlan) {
			if s == 9 {
				st.Exits, st.ProposerSlashings = 2, 1
			}
			if s >= 26 {
				st.BLSChanges = 2
			}
		}),
	})
	add(NamedScenario{
		Name:   "sync-patterns",
		About:  "empty sync aggregates for a whole period, single participants, offline members, across period boundaries and the bellatrix fork",
		Preset: PresetS1, Forks: Forks(1, 4, FarFuture, FarFuture),
		Steps: stepsRange(1, 40, func(s int, st *StepPlan) {
			switch e := s / 4; {
			case e == 2 || e == 3:
				st.SyncFraction = -1
			case e == 4:
				st.Block = &BlockPlan{Sync: SyncPlan{Positions: []int{s % 8}}}
			case e == 5:
				st.Offline = seq(0, 8)
			}
		}),
	})
	add(NamedScenario{
		Name:   "genesis-balances",
		About:  "genesis deposits below, at and above MAX_EFFECTIVE_BALANCE: some validators are not active at genesis and get activated by later top-ups through the queue",
		Preset: PresetS1, Forks: Forks(2, 4, 5, 7),
		Genesis: GenesisOpts{Validators: 20,
			Balances: []common.Gwei{32000, 31999, 32001, 16000, 1000, 48000, 32000, 31000}},
		Steps: stepsRange(1, 44, func(s int, st *StepPlan) {
			if s == 2 {
				st.Deposits = []DepositSpec{{Key: 1, Amount: 1000}, {Key: 3, Amount: 16000}, {Key: 4, Amount: 30000}, {Key: 7, Amount: 1000}}
			}
			st.VoteNewEth1 = true
		}),
	})
	add(NamedScenario{
		Name:   "never-merged",
		About:  "bellatrix blocks keep the default payload for the whole fork; capella's first payload builds on the zero hash",
		Preset: PresetS1, Forks: Forks(1, 2, 4, 6),
		Steps: stepsRange(1, 32, func(s int, st *StepPlan) { st.PreMerge = true }),
	})
	add(NamedScenario{
		Name:   "s4-long",
		About:  "S4 (2 slots/epoch, 8 validators), 40 epochs with an early fork cascade, a leak and a few operations",
		Preset: PresetS4, Forks: Forks(1, 1, 2, 3),
		Steps: stepsRange(1, 80, func(s int, st *StepPlan) {
			e := s / 2
			st.Skip = s%9 == 4
			if e >= 10 && e < 17 {
				st.Offline = seq(4, 8)
			}
			if s == 9 {
				st.Exits = 1
			}
			if s == 41 {
				st.ProposerSlashings = 1
			}
			if s >= 6 && s < 14 {
				st.BLSChanges = 2
			}
			if s == 3 {
				st.NewDeposits = 2
			}
			st.VoteNewEth1 = true
		}),
	})
	add(NamedScenario{
		Name:   "wrong-votes",
		About:  "attesters alternate between wrong head and wrong target votes: source-only / target-only rewards, no head rewards, finality unaffected by wrong heads but stopped by wrong targets",
		Preset: PresetS1, Forks: Forks(3, 5, 7, 9),
		Steps: stepsRange(1, 48, func(s int, st *StepPlan) {
			switch (s / 4) % 3 {
			case 1:
				st.WrongHead = true
			case 2:
				st.WrongTarget = s%2 == 0
			}
		}),
	})
	return out
}
