package chain

import (
	"fmt"
	"testing"

	"github.com/protolambda/zrnt/eth2/beacon/common"
)

func newChain(t testing.TB, preset string, forks ForkSchedule, mod func(*GenesisOpts)) *Chain {
	t.Helper()
	spec := NewSpec(preset, forks)
	opts := GenesisOpts{Validators: DefaultValidatorCount(preset)}
	if mod != nil {
		mod(&opts)
	}
	c, err := NewGenesis(spec, opts)
	if err != nil {
		t.Fatalf("genesis: %v", err)
	}
	return c
}

// oneForkPerEpoch activates altair..deneb at epochs 1..4.
var oneForkPerEpoch = Forks(1, 2, 3, 4)

func TestEmptyBlocksThroughAllForks(t *testing.T) {
	for _, preset := range append(append([]string{}, ScaledPresets...), PresetMinimal) {
		preset := preset
		t.Run(preset, func(t *testing.T) {
			c := newChain(t, preset, oneForkPerEpoch, nil)
			spe := uint64(c.Spec.SLOTS_PER_EPOCH)
			seen := map[Fork]int{}
			for slot := uint64(1); slot <= 6*spe; slot++ {
				env, err := c.ProduceAndApply(BlockPlan{Slot: common.Slot(slot)})
				if err != nil {
					t.Fatalf("slot %d: %v", slot, err)
				}
				if f := ForkOfBody(env.Body); f != c.Fork() {
					t.Fatalf("slot %d: body fork %s, state fork %s", slot, f, c.Fork())
				}
				if want := ForkAtEpoch(c.Spec, c.Epoch()); c.Fork() != want {
					t.Fatalf("slot %d: state fork %s, schedule says %s", slot, c.Fork(), want)
				}
				seen[c.Fork()]++
			}
			for _, f := range AllForks {
				if seen[f] == 0 {
					t.Errorf("fork %s never reached", f)
				}
			}
			if len(c.Blocks) != int(6*spe) {
				t.Errorf("block log has %d entries", len(c.Blocks))
			}
		})
	}
}

func TestForkSchedules(t *testing.T) {
	schedules := []ForkSchedule{
		Phase0Only,
		AllAt(0),
		AllAt(2),
		Forks(0, 0, 1, 1),
		Forks(0, 1, 1, FarFuture),
		Forks(1, 1, 2, 3),
		Forks(2, 3, FarFuture, FarFuture),
		Forks(0, 0, 0, 2),
	}
	for _, fs := range schedules {
		fs := fs
		t.Run(fs.String(), func(t *testing.T) {
			c := newChain(t, PresetS1, fs, nil)
			if want := ForkAtEpoch(c.Spec, 0); c.Fork() != want {
				t.Fatalf("genesis fork %s, want %s", c.Fork(), want)
			}
			for slot := common.Slot(1); slot <= 16; slot++ {
				if slot%5 == 3 {
					continue // skipped slot
				}
				if _, err := c.ProduceAndApply(BlockPlan{Slot: slot}); err != nil {
					t.Fatalf("slot %d (%s): %v", slot, c.Fork(), err)
				}
				if want := ForkAtEpoch(c.Spec, c.Epoch()); c.Fork() != want {
					t.Fatalf("slot %d: state fork %s, schedule says %s", slot, c.Fork(), want)
				}
			}
		})
	}
}

func ExampleChain() {
	spec := NewSpec(PresetS1, Forks(1, 2, 3, 4))
	c, err := NewGenesis(spec, GenesisOpts{Validators: 16})
	if err != nil {
		panic(err)
	}
	for slot := common.Slot(1); slot <= 20; slot++ {
		if _, err := c.ProduceAndApply(BlockPlan{Slot: slot}); err != nil {
			panic(err)
		}
	}
	fmt.Println(c.Slot(), c.Fork(), len(c.Blocks))
	// Output: 20 deneb 20
}

func TestFinalityEveryFork(t *testing.T) {
	for _, f := range AllForks {
		f := f
		t.Run(f.String(), func(t *testing.T) {
			fs := Phase0Only
			switch f {
			case Altair:
				fs = Forks(0, FarFuture, FarFuture, FarFuture)
			case Bellatrix:
				fs = Forks(0, 0, FarFuture, FarFuture)
			case Capella:
				fs = Forks(0, 0, 0, FarFuture)
			case Deneb:
				fs = AllAt(0)
			}
			c := newChain(t, PresetS1, fs, nil)
			if err := c.RunHonest(common.Slot(5 * c.Spec.SLOTS_PER_EPOCH)); err != nil {
				t.Fatal(err)
			}
			_, cur, fin := c.Justified()
			if fin.Epoch < 2 || cur.Epoch < 3 {
				t.Fatalf("no finality: justified %d finalized %d", cur.Epoch, fin.Epoch)
			}
			if c.Fork() != f {
				t.Fatalf("fork %s", c.Fork())
			}
		})
	}
}
