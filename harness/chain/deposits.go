package chain

import (
	"crypto/sha256"
	"encoding/binary"
	"fmt"

	"github.com/protolambda/zrnt/eth2/beacon/common"
	"github.com/protolambda/ztyp/tree"
)

// DepositTree is the harness' model of the eth1 deposit contract: an append-only list
// of deposit data with the incremental Merkle tree of depth 32 over their roots.
// Hashing uses crypto/sha256 directly (independent of zrnt's hashing package).
//
// Value semantics: Clone is O(1); a clone and its origin may both keep appending
// without affecting each other.
type DepositTree struct {
	data   []common.DepositData
	leaves []common.Root
}

var zeroHashes = func() (z [common.DEPOSIT_CONTRACT_TREE_DEPTH + 1]common.Root) {
	for i := 1; i < len(z); i++ {
		z[i] = hashPair(z[i-1], z[i-1])
	}
	return
}()

func hashPair(a, b common.Root) common.Root {
	var buf [64]byte
	copy(buf[:32], a[:])
	copy(buf[32:], b[:])
	return sha256.Sum256(buf[:])
}

// NewDepositTree returns an empty tree.
func NewDepositTree() *DepositTree { return &DepositTree{} }

// Clone returns an independent tree with the same contents.
func (t *DepositTree) Clone() *DepositTree {
	n := len(t.data)
	return &DepositTree{data: t.data[:n:n], leaves: t.leaves[:n:n]}
}

// Count is the number of deposits made so far.
func (t *DepositTree) Count() uint64 { return uint64(len(t.data)) }

// Append adds a deposit and returns its index.
func (t *DepositTree) Append(d common.DepositData) uint64 {
	t.data = append(t.data, d)
	t.leaves = append(t.leaves, d.HashTreeRoot(tree.GetHashFn()))
	return uint64(len(t.data) - 1)
}

// Data returns deposit i.
func (t *DepositTree) Data(i uint64) common.DepositData { return t.data[i] }

// levels computes, for the first count leaves, the non-empty prefix of every tree level.
func (t *DepositTree) levels(count uint64) [][]common.Root {
	out := make([][]common.Root, common.DEPOSIT_CONTRACT_TREE_DEPTH+1)
	cur := t.leaves[:count]
	out[0] = cur
	for lvl := 0; lvl < common.DEPOSIT_CONTRACT_TREE_DEPTH; lvl++ {
		next := make([]common.Root, (len(cur)+1)/2)
		for i := range next {
			l := cur[2*i]
			r := zeroHashes[lvl]
			if 2*i+1 < len(cur) {
				r = cur[2*i+1]
			}
			next[i] = hashPair(l, r)
		}
		out[lvl+1] = next
		cur = next
	}
	return out
}

func lengthChunk(count uint64) (c common.Root) {
	binary.LittleEndian.PutUint64(c[:8], count)
	return
}

// Root returns the deposit root (hash_tree_root of List[DepositData, 2^32]) of the
// first count deposits.
func (t *DepositTree) Root(count uint64) common.Root {
	if count > t.Count() {
		panic(fmt.Sprintf("deposit tree: root for %d deposits, have %d", count, t.Count()))
	}
	top := zeroHashes[common.DEPOSIT_CONTRACT_TREE_DEPTH]
	if count > 0 {
		top = t.levels(count)[common.DEPOSIT_CONTRACT_TREE_DEPTH][0]
	}
	return hashPair(top, lengthChunk(count))
}

// Proof returns the Merkle branch (33 nodes: 32 siblings + length mix-in) that proves
// deposit index inside the tree of the first count deposits.
func (t *DepositTree) Proof(index, count uint64) (p common.DepositProof) {
	if index >= count || count > t.Count() {
		panic(fmt.Sprintf("deposit tree: proof %d/%d, have %d", index, count, t.Count()))
	}
	lv := t.levels(count)
	i := index
	for lvl := 0; lvl < common.DEPOSIT_CONTRACT_TREE_DEPTH; lvl++ {
		sib := i ^ 1
		if sib < uint64(len(lv[lvl])) {
			p[lvl] = lv[lvl][sib]
		} else {
			p[lvl] = zeroHashes[lvl]
		}
		i >>= 1
	}
	p[common.DEPOSIT_CONTRACT_TREE_DEPTH] = lengthChunk(count)
	return p
}

// Deposit returns deposit index with its proof against the tree of count deposits.
func (t *DepositTree) Deposit(index, count uint64) common.Deposit {
	return common.Deposit{Proof: t.Proof(index, count), Data: t.data[index]}
}

// Eth1Data returns the eth1 data an honest eth1 follower reports for the first count
// deposits. The block hash is a deterministic function of count (sha256("eth1"‖count)),
// so two honest voters agree.
func (t *DepositTree) Eth1Data(count uint64) common.Eth1Data {
	return common.Eth1Data{
		DepositRoot:  t.Root(count),
		DepositCount: common.DepositIndex(count),
		BlockHash:    Eth1BlockHash(count),
	}
}

// Eth1BlockHash is the block hash the harness associates with "the eth1 block after
// count deposits".
func Eth1BlockHash(count uint64) common.Root {
	var buf [12]byte
	copy(buf[:4], "eth1")
	binary.LittleEndian.PutUint64(buf[4:], count)
	return sha256.Sum256(buf[:])
}

// DepositSpec describes a deposit to make.
type DepositSpec struct {
	Key    KeyID       // depositor's validator key (existing key => top-up)
	Amount common.Gwei // 0 => MAX_EFFECTIVE_BALANCE
	// Credentials: nil => BLS credentials of WithdrawalKey(Key); otherwise used verbatim
	// (e.g. Eth1WithdrawalCredentials(Eth1Address(Key))).
	Credentials *common.Root
	Eth1Creds   bool // shorthand: Credentials = 0x01 credentials for Eth1Address(Key)
	// BadSignature: sign the deposit message with the wrong key (Key+7777): a new
	// validator is then ignored (block stays valid), a top-up still counts.
	BadSignature bool
	// WrongDomain: sign under the current-fork deposit domain instead of the
	// fork-agnostic one (also an invalid proof of possession).
	WrongDomainVersion *common.Version
}

// MakeDepositData builds and signs deposit data (proof of possession under
// compute_domain(DOMAIN_DEPOSIT, GENESIS_FORK_VERSION, zero root)).
func MakeDepositData(spec *common.Spec, ks *Keys, d DepositSpec) common.DepositData {
	amount := d.Amount
	if amount == 0 {
		amount = spec.MAX_EFFECTIVE_BALANCE
	}
	var creds common.Root
	switch {
	case d.Credentials != nil:
		creds = *d.Credentials
	case d.Eth1Creds:
		creds = Eth1WithdrawalCredentials(Eth1Address(d.Key))
	default:
		creds = ks.BLSWithdrawalCredentials(d.Key)
	}
	data := common.DepositData{
		Pubkey:                ks.Pubkey(d.Key),
		WithdrawalCredentials: creds,
		Amount:                amount,
	}
	signer := d.Key
	if d.BadSignature {
		signer = d.Key + 7777
	}
	dom := Domain{Type: common.DOMAIN_DEPOSIT, Version: spec.GENESIS_FORK_VERSION}
	if d.WrongDomainVersion != nil {
		dom.Version = *d.WrongDomainVersion
	}
	data.Signature = ks.Sign1(signer, data.MessageRoot(), dom)
	return data
}

// VerifyDepositProof re-checks a proof with the harness' own hashing (is_valid_merkle_branch).
func VerifyDepositProof(dep *common.Deposit, index uint64, root common.Root) bool {
	node := dep.Data.HashTreeRoot(tree.GetHashFn())
	for i := 0; i <= common.DEPOSIT_CONTRACT_TREE_DEPTH; i++ {
		if (index>>uint(i))&1 == 1 {
			node = hashPair(dep.Proof[i], node)
		} else {
			node = hashPair(node, dep.Proof[i])
		}
	}
	return node == root
}
