// Package chainabs connects the chain builder (harness/chain) with the abstraction layer (harness/absstate):
// signature descriptions from the chain's signature registry and the key table of the harness' keys.
package chainabs

import (
	"github.com/protolambda/zrnt/eth2/beacon/common"

	"verif/harness/absstate"
	"verif/harness/chain"
)

// SigLookup adapts the chain package's signature registry.  KeySum is the sum of the signers' secret scalars
// (the harness' keys are the small integers KeyID+1): with such keys a BLS aggregate is determined by
// (message, domain, key sum), which is what the reference model compares.
func SigLookup(ks *chain.Keys) absstate.SigLookup {
	return func(sig common.BLSSignature) (*absstate.SigDesc, bool) {
		info, ok := ks.Lookup(sig)
		if !ok {
			return nil, false
		}
		d := &absstate.SigDesc{Message: info.Message, DomainType: info.DomainType, ForkVersion: info.ForkVersion, GVR: info.GVR}
		sum := uint64(0)
		for _, k := range info.Signers {
			d.Signers = append(d.Signers, ks.Pubkey(k))
			sum += uint64(k) + 1
		}
		d.KeySum = -1
		if sum < 1<<31 {
			d.KeySum = int(sum)
		}
		return d, true
	}
}

// KeyTable lists pubkey id -> secret scalar for validator / depositor keys 0..n-1 and their withdrawal keys,
// plus any extra keys.
func KeyTable(ks *chain.Keys, n int, extra ...chain.KeyID) map[string]int {
	out := map[string]int{}
	add := func(k chain.KeyID) {
		pk := ks.Pubkey(k)
		if uint64(k)+1 < 1<<31 {
			out[absstate.ID(pk[:])] = int(k) + 1
		}
	}
	for k := 0; k < n; k++ {
		add(chain.KeyID(k))
		add(chain.WithdrawalKey(chain.KeyID(k)))
	}
	for _, k := range extra {
		add(k)
	}
	return out
}

func init() {
	absstate.Unwrappers = append(absstate.Unwrappers, func(s common.BeaconState) (common.BeaconState, bool) {
		if f, ok := s.(chain.SyncFixState); ok {
			return f.StandardUpgradeableBeaconState, true
		}
		return nil, false
	})
}
